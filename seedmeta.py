#!/usr/bin/env python3
"""seedmeta.py <seed-src-dir> <name>: writes /verif/seeded/<name>/meta.json from the
sub-agent's meta.json and the confirmation log written by seedtest.sh."""
import json,sys,os,re
src,name=sys.argv[1],sys.argv[2]
out=f'/verif/seeded/{name}'
m={}
try: m=json.load(open(os.path.join(src,'meta.json')))
except Exception as e: m={'note':'agent meta unreadable: %s'%e}
log=open(os.path.join(out,'confirm.log')).read().splitlines()
conf={}; checks=[]
for l in log:
    if l.startswith('check '):
        mm=re.match(r'check (\S+): exit=(\d+) violations=(\d+) :: (.*)',l)
        checks.append({'check':mm.group(1),'exit':int(mm.group(2)),'violations':int(mm.group(3)),'first':mm.group(4)})
    elif '=' in l and not l.startswith('demo_path'):
        k,v=l.split('=',1); conf[k]=v
    elif l.startswith('demo_path'):
        conf['demo']=l
meta={'property':m.get('property',name.split('-')[0]),'breaks':m.get('summary'),'needs_to_manifest':m.get('needs'),
      'files_changed':m.get('files_changed'),'origin':'independent sub-agent given only the property text and a scratch worktree',
      'confirmed_by_me':conf,'what_i_ran':'seedtest.sh: scratch worktree of /repo HEAD: git apply patch; go build ./...; go test -vet=off -count=1 ./... ; demo with patch; demo without patch; then git -C /repo apply, ./run.sh <check> quick, git -C /repo checkout -- .',
      'checks':checks,'caught':any(c['violations']>0 for c in checks)}
json.dump(meta,open(os.path.join(out,'meta.json'),'w'),indent=1)
print(name,'caught' if meta['caught'] else 'MISSED', [ (c['check'],c['violations']) for c in checks])
