#!/usr/bin/env python3
"""C11 monitor (runs under python3-vt): the published JSON Schemas under
data/schemas are loaded into a referencing.Registry keyed by $id and

  check   : every file is a valid draft 2020-12 schema, every $ref resolves,
            every pattern compiles
  validate: every envelope / document given on stdin (JSON lines:
            {"id":…, "json":…}) conforms to the published schema named by its
            $schema (envelope → envelope.json, and the inner doc against its
            own type)

Output: JSON lines on stdout, one per finding, and a final {"summary":…} line.
"""
import json, os, re, sys, glob
from multiprocessing import Pool
from collections import Counter

import jsonschema
from jsonschema import Draft202012Validator, FormatChecker
from referencing import Registry, Resource
from referencing.jsonschema import DRAFT202012

SCHEMA_DIR = sys.argv[2] if len(sys.argv) > 2 else "/repo/data/schemas"

fc = FormatChecker(formats=[f for f in ["date", "email", "time", "regex", "ipv4", "ipv6", "uuid"] if f in FormatChecker.checkers])

URI_RE = re.compile(r"^[A-Za-z][A-Za-z0-9+.\-]*:[^\s]*$")  # RFC 3986 absolute URI: scheme ":" hier-part, no whitespace

@fc.checks("uri")
def _uri(v):
    return not isinstance(v, str) or bool(URI_RE.match(v))

def load():
    files = sorted(glob.glob(os.path.join(SCHEMA_DIR, "**", "*.json"), recursive=True))
    schemas = {}
    problems = []
    for f in files:
        rel = os.path.relpath(f, SCHEMA_DIR)
        try:
            s = json.load(open(f))
        except Exception as e:
            problems.append({"kind": "schema-invalid", "file": rel, "reason": "not-json", "message": str(e)})
            continue
        sid = s.get("$id")
        if not sid:
            problems.append({"kind": "schema-invalid", "file": rel, "reason": "no-$id", "message": "schema has no $id"})
            continue
        schemas[sid] = (rel, s)
    reg = Registry().with_resources([(sid, Resource(contents=s, specification=DRAFT202012)) for sid, (rel, s) in schemas.items()])
    return schemas, reg, problems

def walk_schema(node, path, fn):
    if isinstance(node, dict):
        fn(node, path)
        for k, v in node.items():
            walk_schema(v, path + "/" + k, fn)
    elif isinstance(node, list):
        for i, v in enumerate(node):
            walk_schema(v, path + "/" + str(i), fn)

def check_schemas():
    schemas, reg, problems = load()
    stats = Counter()
    for sid, (rel, s) in schemas.items():
        stats["files"] += 1
        try:
            Draft202012Validator.check_schema(s)
        except jsonschema.exceptions.SchemaError as e:
            problems.append({"kind": "schema-invalid", "file": rel, "reason": "metaschema:" + "/".join(str(x) for x in e.absolute_path), "message": e.message[:300]})
        resolver = reg.resolver(base_uri=sid)
        def visit(node, path, rel=rel, resolver=resolver):
            ref = node.get("$ref")
            if isinstance(ref, str):
                stats["refs"] += 1
                try:
                    resolver.lookup(ref)
                except Exception as e:
                    problems.append({"kind": "schema-invalid", "file": rel, "reason": "unresolvable-ref", "message": f"{path}: {ref}: {e}"[:300]})
            pat = node.get("pattern")
            if isinstance(pat, str) and not isinstance(node.get("properties"), dict):
                stats["patterns"] += 1
                try:
                    re.compile(pat)
                except re.error as e:
                    problems.append({"kind": "schema-invalid", "file": rel, "reason": "pattern-does-not-compile", "message": f"{path}: {pat}: {e}"[:300]})
        walk_schema(s, "", visit)
    for p in problems:
        print(json.dumps(p))
    print(json.dumps({"summary": dict(stats)}))

_state = {}

def _init():
    schemas, reg, _ = load()
    _state["schemas"], _state["reg"] = schemas, reg
    _state["validators"] = {}

def _validator(sid):
    v = _state["validators"].get(sid)
    if v is None:
        rel, s = _state["schemas"][sid]
        v = Draft202012Validator(s, registry=_state["reg"], format_checker=fc)
        _state["validators"][sid] = v
    return v

def path_class(p):
    out = []
    for x in p:
        out.append("[]" if isinstance(x, int) else str(x))
    return ".".join(out).replace(".[]", "[]")

def _validate_line(line):
    try:
        item = json.loads(line)
    except Exception:
        return [{"kind": "bad-input"}], Counter()
    doc = item["json"]
    out = []
    stats = Counter()
    targets = []
    sid = doc.get("$schema")
    targets.append((sid, doc, "envelope" if "doc" in doc and "head" in doc else "document"))
    if "doc" in doc and isinstance(doc["doc"], dict):
        targets.append((doc["doc"].get("$schema"), doc["doc"], "document"))
    for sid, inst, role in targets:
        if sid not in _state["schemas"]:
            out.append({"kind": "no-schema", "id": item["id"], "schema": sid})
            continue
        rel = _state["schemas"][sid][0]
        stats["instances:" + rel] += 1
        errs = sorted(_validator(sid).iter_errors(inst), key=lambda e: list(e.absolute_path))
        for e in errs[:5]:
            # descend into the most specific sub-error of oneOf/anyOf
            best = e
            while best.context:
                best = max(best.context, key=lambda c: len(list(c.absolute_path)))
            out.append({"kind": "rejects", "id": item["id"], "schema": rel, "keyword": best.validator,
                        "path": path_class(list(best.absolute_path)), "message": best.message[:300], "role": role})
    return out, stats

def validate_stream():
    lines = [l for l in sys.stdin if l.strip()]
    stats = Counter()
    n = 0
    with Pool(processes=int(os.environ.get("VERIF_PY_WORKERS", "16")), initializer=_init) as pool:
        for out, st in pool.imap_unordered(_validate_line, lines, chunksize=8):
            n += 1
            stats.update(st)
            for o in out:
                print(json.dumps(o))
    print(json.dumps({"summary": {"validated": n, **dict(stats)}}))

if __name__ == "__main__":
    mode = sys.argv[1] if len(sys.argv) > 1 else "check"
    if mode == "check":
        check_schemas()
    else:
        validate_stream()
