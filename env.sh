# Offline build environment for every command of the harness.
export GOFLAGS=-mod=mod GOPROXY=off GOSUMDB=off GOTOOLCHAIN=local
export CGO_ENABLED=${CGO_ENABLED:-1}
export VERIF_ROOT=${VERIF_ROOT:-/verif}
export VERIF_REPO=${VERIF_REPO:-/repo}
