#!/usr/bin/env python3
"""addhist.py <name> <text>: records in seeded/<name>/meta.json how a missed seed came to be caught."""
import json,sys
p=f'/verif/seeded/{sys.argv[1]}/meta.json'
m=json.load(open(p)); m['history']=sys.argv[2]; json.dump(m,open(p,'w'),indent=1)
