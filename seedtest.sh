#!/bin/bash
# seedtest.sh <seed-dir> <name> <check ids…>
# Confirms a seeded breaking change (patch.diff + demo) in a scratch worktree of /repo:
#   suite passes with it, demo fails with it and passes without it;
# then applies it to /repo, runs the given quick checks, restores /repo, and
# stores everything under /verif/seeded/<name>/.
# runs with a seeded change applied write evidence/<id>.seeded.json, never the committed evidence file
export VERIF_EVIDENCE_SUFFIX=.seeded
set -u
. /verif/env.sh
src=$1; name=$2; shift 2
out=/verif/seeded/$name; mkdir -p $out
wt=/tmp/seedwt-$name
git -C /repo worktree remove --force $wt 2>/dev/null
git -C /repo worktree add -q --detach $wt HEAD || exit 2
cp $src/patch.diff $out/patch.diff
demo=$(ls $src | grep -E '_test\.go$|main\.go$' | grep -v FOREIGN | head -1)
demopath=$(grep -oE '[a-zA-Z0-9_/.-]*seeded_demo_test\.go' $src/demo_cmd.txt | grep -v '^/tmp/seed-out' | head -1 | sed -E "s#^/tmp/wt[0-9]*-[A-Z0-9]+/##")
[ -z "$demopath" ] && demopath=seeded_demo_test.go
runcmd=$(grep -oE "go test [^\`]*" $src/demo_cmd.txt | head -1)
cp $src/$demo $out/$demo
res() { echo "$1" | tee -a $out/confirm.log; }
if [ "${SEEDTEST_SKIP_CONFIRM:-}" = 1 ]; then
  cd /; git -C /repo worktree remove --force $wt
else
: > $out/confirm.log
cd $wt
if ! git apply $out/patch.diff; then res "PATCH DOES NOT APPLY"; cd /; git -C /repo worktree remove --force $wt; exit 3; fi
if go build ./... >/dev/null 2>&1; then res "builds_with_patch=yes"; else res "builds_with_patch=NO"; fi
if go test -vet=off -count=1 ./... > $out/suite.log 2>&1; then res "suite_passes_with_patch=yes"; else res "suite_passes_with_patch=NO"; fi
mkdir -p $(dirname $demopath); cp $out/$demo $demopath
if ( eval "$runcmd" ) > $out/demo_with.log 2>&1; then res "demo_fails_with_patch=NO (passed)"; else res "demo_fails_with_patch=yes"; fi
git apply -R $out/patch.diff
if ( eval "$runcmd" ) > $out/demo_without.log 2>&1; then res "demo_passes_without_patch=yes"; else res "demo_passes_without_patch=NO"; fi
res "demo_path=$demopath demo_cmd=$runcmd"
cd /; git -C /repo worktree remove --force $wt
fi
[ "${SEEDTEST_CONFIRM_ONLY:-}" = 1 ] && exit 0
# now against the checks
git -C /repo apply $out/patch.diff || { res "cannot apply to /repo"; exit 4; }
for id in "$@"; do
  o=$(cd /verif && ./run.sh $id quick 2>&1); rc=$?
  n=$(echo "$o" | grep -c '^VIOLATION')
  res "check $id: exit=$rc violations=$n :: $(echo "$o" | grep '^VIOLATION' | head -1 | cut -c1-220)"
done
git -C /repo checkout -- .
git -C /repo status --short | head -3
