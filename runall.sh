#!/bin/bash
# runall.sh [tier] [ids…] — runs checks one after another, prints one line each.
cd "$(dirname "$0")"
tier=${1:-quick}; shift
ids=${@:-$(python3 -c "import json;print(' '.join(c['property_id'] for c in json.load(open('MANIFEST.json'))['checks']))")}
for id in $ids; do
  s=$(date +%s); out=$(./run.sh $id $tier 2>&1); rc=$?; e=$(date +%s)
  echo "$id rc=$rc $((e-s))s :: $(echo "$out" | grep -E '^(RESULT|INCONCLUSIVE)' | head -1 | cut -c1-150) $(echo "$out" | grep -c '^VIOLATION') viol $(echo "$out" | grep -c '^KNOWN-FINDING') known"
  [ $rc -ne 0 ] && echo "$out" | grep '^VIOLATION' | head -3 | cut -c1-260
done
