#!/bin/bash
# run.sh <ID> <quick|thorough|replay> [replay-file]
# Rebuilds the harness against /repo's current working tree (hooks enabled by
# the build tag "verif"), runs the monitor for one property and lets it write
# evidence/<ID>.json.  Exit: 0 held, 1 violation, 2 inconclusive.
set -u
cd "$(dirname "$0")"
. ./env.sh
ID=${1:?property id}; TIER=${2:-quick}; FILE=${3:-}
mkdir -p bin evidence replay
H=harness
cp -f "$VERIF_REPO/go.sum" $H/go.sum 2>/dev/null
if [ "$VERIF_REPO" != /repo ]; then
  # a snapshot of the repository (vp run --with-repo): point the module at it
  ( cd $H && go mod edit -replace github.com/invopop/gobl="$VERIF_REPO" )
fi
build() { # build <out> <extra flags…>
  local out=$1; shift
  ( cd $H && go build -tags verif "$@" -o ../bin/$out ./cmd/vcheck ) 2> bin/.build.$out.log
}
if ! build vcheck; then
  echo "INCONCLUSIVE property=$ID reason=build"; sed -n '1,30p' bin/.build.vcheck.log; exit 2
fi
case "$ID" in
  C15) # race-detector build of harness + library, and of the CLI/server
    if ! build vcheck-race -race; then echo "INCONCLUSIVE property=$ID reason=build-race"; sed -n '1,30p' bin/.build.vcheck-race.log; exit 2; fi
    if ! ( cd "$VERIF_REPO" && go build -race -tags verif -o "$VERIF_ROOT/bin/gobl-race" ./cmd/gobl ) 2> bin/.build.gobl-race.log; then
      echo "INCONCLUSIVE property=$ID reason=build-cli"; sed -n '1,30p' bin/.build.gobl-race.log; exit 2; fi
    ;;
esac
case "$ID" in
  C04|C08|C09|C14|C16|C19)
    if ! ( cd "$VERIF_REPO" && go build -tags verif -o "$VERIF_ROOT/bin/gobl" ./cmd/gobl ) 2> bin/.build.gobl.log; then
      echo "INCONCLUSIVE property=$ID reason=build-cli"; sed -n '1,30p' bin/.build.gobl.log; exit 2; fi
    ;;
esac
if [ "$TIER" = replay ]; then
  exec bin/vcheck replay "$ID" "$FILE"
fi
exec bin/vcheck run "$ID" "$TIER"
