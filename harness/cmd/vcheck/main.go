// vcheck runs one property monitor against the gobl tree it was built from.
//
//	vcheck run <ID> <quick|thorough>
//	vcheck replay <ID> <file>
//	vcheck child <ID> ...   (internal: isolated batches)
package main

import (
	"encoding/json"
	"fmt"
	"os"
	"runtime"
	"strconv"

	"verif/checks"
	"verif/internal/ev"
)

func main() {
	if len(os.Args) < 3 {
		fmt.Fprintln(os.Stderr, "usage: vcheck run <ID> <tier> | vcheck replay <ID> <file> | vcheck child <ID> <args…>")
		os.Exit(2)
	}
	mode, id := os.Args[1], os.Args[2]
	if mode == "child" {
		fn := checks.Children[id]
		if fn == nil {
			fmt.Fprintln(os.Stderr, "no child for", id)
			os.Exit(2)
		}
		os.Exit(fn(os.Args[3:]))
	}
	fn := checks.Registry[id]
	if fn == nil {
		fmt.Printf("INCONCLUSIVE property=%s reason=no-such-check\n", id)
		os.Exit(2)
	}
	tier := "quick"
	replay := ""
	switch mode {
	case "run":
		if len(os.Args) > 3 {
			tier = os.Args[3]
		}
		if t := os.Getenv("VERIF_TIER"); t == "quick" || t == "thorough" {
			tier = t
		}
	case "replay":
		if len(os.Args) < 4 {
			fmt.Fprintln(os.Stderr, "replay needs a file")
			os.Exit(2)
		}
		replay = os.Args[3]
		tier = "quick"
		// a replay file names the tier and seed of the run that wrote it; the case
		// lists of every check are fixed by these two, so running the check again
		// with them reproduces the reported violation (or shows it gone)
		if b, err := os.ReadFile(replay); err == nil {
			var rf struct {
				Seed *int64 `json:"seed"`
				Tier string `json:"tier"`
				Sig  string `json:"sig"`
			}
			if json.Unmarshal(b, &rf) == nil {
				if rf.Tier == "quick" || rf.Tier == "thorough" {
					tier = rf.Tier
				}
				if rf.Seed != nil && os.Getenv("VERIF_SEED") == "" {
					os.Setenv("VERIF_SEED", strconv.FormatInt(*rf.Seed, 10))
				}
				fmt.Printf("REPLAY property=%s tier=%s seed=%s signature=%s\n", id, tier, os.Getenv("VERIF_SEED"), rf.Sig)
			}
		} else {
			fmt.Fprintln(os.Stderr, "replay file unreadable:", err)
			os.Exit(2)
		}
		os.Setenv("VERIF_EVIDENCE_SUFFIX", ".replay")
	default:
		fmt.Fprintln(os.Stderr, "unknown mode", mode)
		os.Exit(2)
	}
	seed := int64(1)
	if s := os.Getenv("VERIF_SEED"); s != "" {
		if v, err := strconv.ParseInt(s, 10, 64); err == nil {
			seed = v
		}
	}
	r := ev.New(id, tier, seed)
	c := &checks.Ctx{R: r, ID: id, Tier: tier, Seed: seed, Thorough: tier == "thorough", Workers: runtime.NumCPU(), Replay: replay}
	if w := os.Getenv("VERIF_WORKERS"); w != "" {
		if v, err := strconv.Atoi(w); err == nil && v > 0 {
			c.Workers = v
		}
	}
	fn(c)
	os.Exit(r.Finish())
}
