// vcheck runs one property monitor against the gobl tree it was built from.
//
//	vcheck run <ID> <quick|thorough>
//	vcheck replay <ID> <file>
//	vcheck child <ID> ...   (internal: isolated batches)
package main

import (
	"fmt"
	"os"
	"runtime"
	"strconv"

	"verif/checks"
	"verif/internal/ev"
)

func main() {
	if len(os.Args) < 3 {
		fmt.Fprintln(os.Stderr, "usage: vcheck run <ID> <tier> | vcheck replay <ID> <file> | vcheck child <ID> <args…>")
		os.Exit(2)
	}
	mode, id := os.Args[1], os.Args[2]
	if mode == "child" {
		fn := checks.Children[id]
		if fn == nil {
			fmt.Fprintln(os.Stderr, "no child for", id)
			os.Exit(2)
		}
		os.Exit(fn(os.Args[3:]))
	}
	fn := checks.Registry[id]
	if fn == nil {
		fmt.Printf("INCONCLUSIVE property=%s reason=no-such-check\n", id)
		os.Exit(2)
	}
	tier := "quick"
	replay := ""
	switch mode {
	case "run":
		if len(os.Args) > 3 {
			tier = os.Args[3]
		}
		if t := os.Getenv("VERIF_TIER"); t == "quick" || t == "thorough" {
			tier = t
		}
	case "replay":
		if len(os.Args) < 4 {
			fmt.Fprintln(os.Stderr, "replay needs a file")
			os.Exit(2)
		}
		replay = os.Args[3]
		tier = "quick"
	default:
		fmt.Fprintln(os.Stderr, "unknown mode", mode)
		os.Exit(2)
	}
	seed := int64(1)
	if s := os.Getenv("VERIF_SEED"); s != "" {
		if v, err := strconv.ParseInt(s, 10, 64); err == nil {
			seed = v
		}
	}
	r := ev.New(id, tier, seed)
	c := &checks.Ctx{R: r, ID: id, Tier: tier, Seed: seed, Thorough: tier == "thorough", Workers: runtime.NumCPU(), Replay: replay}
	if w := os.Getenv("VERIF_WORKERS"); w != "" {
		if v, err := strconv.Atoi(w); err == nil && v > 0 {
			c.Workers = v
		}
	}
	fn(c)
	os.Exit(r.Finish())
}
