package checks

import (
	"bufio"
	"bytes"
	"encoding/base64"
	"encoding/json"
	"fmt"
	"io"
	"os"
	"os/exec"
	"path/filepath"
	"regexp"
	"runtime"
	"sort"
	"strings"
	"sync"
	"net/http"
	"time"

	"github.com/invopop/gobl"
	"github.com/invopop/gobl/bill"
	"github.com/invopop/gobl/cbc"
	"github.com/invopop/gobl/currency"
	"github.com/invopop/gobl/dsig"
	"github.com/invopop/gobl/i18n"
	"github.com/invopop/gobl/l10n"
	"github.com/invopop/gobl/org"
	"github.com/invopop/gobl/pay"
	"github.com/invopop/gobl/schema"
	"github.com/invopop/gobl/tax"

	"verif/internal/corpus"
	"verif/internal/ev"
	"verif/internal/gx"
	"verif/internal/jmut"
	"verif/internal/srv"
	"verif/internal/walk"
)

// C15 — concurrent use is race-free, result-equivalent, and bulk replies pair up.
//
// (a) Go race detector over a library stress (harness + gobl built -race),
// (b) concurrent results compared with sequential ones, and a deep
// fingerprint of the global registries (incl. slice spare capacity) before and
// after, (c) offline checker over recorded bulk request/response streams.

func init() {
	Register("C15", runC15)
	Children["C15"] = childC15
}

var _ = []any{cbc.KeyEmpty, i18n.EN, l10n.ES, org.Party{}, pay.Advance{}}

// registryRoots: the shared state a concurrent caller relies on being read-only.
func registryRoots() map[string]any {
	roots := map[string]any{}
	for k, v := range tax.VerifRoots() {
		roots[k] = v
	}
	for k, v := range schema.VerifRoots() {
		roots[k] = v
	}
	for k, v := range currency.VerifRoots() {
		roots[k] = v
	}
	roots["tax.AllRegimeDefs"] = tax.AllRegimeDefs()
	roots["tax.AllAddonDefs"] = tax.AllAddonDefs()
	roots["tax.AllCatalogueDefs"] = tax.AllCatalogueDefs()
	roots["bill.InvoiceTypes"] = bill.InvoiceTypes
	roots["bill.PaymentTypes"] = bill.PaymentTypes
	roots["tax.RoundingRules"] = tax.RoundingRules
	roots["pay.TermKeyDefinitions"] = pay.TermKeyDefinitions
	return roots
}

type regFP struct {
	Hash  map[string]uint64 `json:"hash"`
	Stats walk.Stats        `json:"stats"`
	paths map[string]map[string]uint64
}

func fingerprintRegistries() regFP {
	out := regFP{Hash: map[string]uint64{}}
	for k, v := range registryRoots() {
		h, st := walk.Fingerprint(v)
		out.Hash[k] = h
		if out.paths == nil {
			out.paths = map[string]map[string]uint64{}
		}
		out.paths[k] = walk.PathHashes(v, 7)
		out.Stats.Nodes += st.Nodes
		out.Stats.Pointers += st.Pointers
		out.Stats.Slices += st.Slices
		out.Stats.SpareSlices += st.SpareSlices
		out.Stats.SpareElements += st.SpareElements
		out.Stats.Maps += st.Maps
		out.Stats.Funcs += st.Funcs
	}
	return out
}

func fpDiff(a, b regFP) []string {
	var out []string
	for k, v := range a.Hash {
		if b.Hash[k] != v {
			// localise: the deepest paths whose sub-tree hash changed
			var deepest []string
			for p, h := range a.paths[k] {
				if b.paths[k][p] != h {
					deepest = append(deepest, p)
				}
			}
			sort.Slice(deepest, func(i, j int) bool { return len(deepest[i]) > len(deepest[j]) })
			where := ""
			if len(deepest) > 0 {
				where = deepest[0]
			}
			out = append(out, k+where)
		}
	}
	sort.Strings(out)
	return out
}

// ---- work list ---------------------------------------------------------------

type c15work struct {
	Name string `json:"name"`
	Doc  []byte `json:"doc"`
}

func c15workList() []c15work {
	var out []c15work
	w := getWorld()
	for _, it := range corpus.Golden() {
		if doc, err := gx.DocJSON(it.Data); err == nil {
			out = append(out, c15work{"corpus:" + it.Rel, doc})
		}
	}
	// the example inputs as shipped (before calculation filled anything in) …
	for _, src := range corpus.Sources() {
		out = append(out, c15work{"source:" + src.Rel, src.JSON})
	}
	// … and the calculated examples with everything calculation adds at the
	// top level removed again (tax extensions, totals), so that it is added anew
	for _, it := range corpus.Golden() {
		doc, err := gx.DocJSON(it.Data)
		if err != nil {
			continue
		}
		n, err := jmut.Parse(doc)
		if err != nil || n.Get("tax") == nil || n.Get("tax").Get("ext") == nil {
			continue
		}
		n.Get("tax").Del("ext")
		n.Del("totals")
		out = append(out, c15work{"stripped:" + it.Rel, n.Bytes()})
	}
	b, err := os.ReadFile(filepath.Join(ev.Repo(), "examples/es/out/invoice-es-es.json"))
	if err != nil {
		return out
	}
	doc, _ := gx.DocJSON(b)
	// documents with JSON floats (coordinates are the only ones a document can
	// hold): canonical JSON formats them on its own path
	for k, co := range [][2]string{{"40.41677541234567", "-3.7037901234567891"}, {"0.1", "1.0e-7"}, {"-89.99999999999999", "179.99999999999997"}, {"51.5", "-0.25"}} {
		if n, err := jmut.Parse(doc); err == nil {
			if sup := n.Get("supplier"); sup != nil && sup.K == jmut.Obj {
				coords := jmut.O(jmut.Member{Key: "lat", Val: jmut.N(co[0])}, jmut.Member{Key: "lon", Val: jmut.N(co[1])})
				sup.Set("addresses", jmut.Ar(jmut.O(jmut.Member{Key: "locality", Val: jmut.S("Madrid")}, jmut.Member{Key: "country", Val: jmut.S("ES")}, jmut.Member{Key: "coords", Val: coords})))
				n.Del("totals")
				out = append(out, c15work{fmt.Sprintf("coordinates-invoice-%d", k), n.Bytes()})
			}
		}
		out = append(out, c15work{fmt.Sprintf("coordinates-party-%d", k), []byte(`{"$schema":"https://gobl.org/draft-0/org/party","uuid":"0190a1b2-c3d4-7e5f-8a9b-0c1d2e3f4a5b","name":"P","addresses":[{"locality":"X","coords":{"lat":` + co[0] + `,"lon":` + co[1] + `}}]}`)})
	}
	var regs, addons []string
	for r := range w.defs.Regimes {
		regs = append(regs, r)
	}
	for a := range w.defs.Addons {
		addons = append(addons, a)
	}
	sort.Strings(regs)
	sort.Strings(addons)
	for _, r := range regs {
		for _, a := range append([]string{""}, addons...) {
			n, _ := jmut.Parse(doc)
			n.Del("totals")
			n.Del("$regime")
			n.Get("supplier").Get("tax_id").Set("country", jmut.S(r))
			n.Get("supplier").Get("tax_id").Del("code")
			if c := n.Get("customer"); c != nil && c.Get("tax_id") != nil {
				c.Get("tax_id").Set("country", jmut.S(r))
				c.Get("tax_id").Del("code")
			}
			if a != "" {
				n.Set("$addons", jmut.Ar(jmut.S(a)))
			} else {
				n.Del("$addons")
			}
			n.Set("currency", jmut.S(w.defs.Regimes[r].Currency))
			n.Set("$tags", jmut.Ar(jmut.S("simplified")))
			for _, l := range n.Get("lines").A {
				l.Del("taxes")
			}
			out = append(out, c15work{"regime-addon:" + r + ":" + a, n.Bytes()})
			if a == "" {
				// the same without an issue date: the regime's clock and time zone decide it
				n2 := n.Clone()
				n2.Del("issue_date")
				out = append(out, c15work{"regime-no-issue-date:" + r, n2.Bytes()})
			}
		}
	}
	return out
}

var uuidRe = regexp.MustCompile(`"uuid":"[0-9a-f-]{36}"`)
var sigsRe = regexp.MustCompile(`"sigs":\[[^\]]*\]`)
var dateRe = regexp.MustCompile(`"issue_date":"\d{4}-\d{2}-\d{2}"`)

// stable removes what is random by design (fresh UUIDs, ECDSA signatures, today's date).
func stable(b []byte) string {
	s := uuidRe.ReplaceAllString(string(b), `"uuid":"*"`)
	s = sigsRe.ReplaceAllString(s, `"sigs":["*"]`)
	return s
}

func stableDoc(b []byte) string {
	n, err := jmut.Parse(b)
	if err != nil {
		return "unparseable"
	}
	d := n.Get("doc")
	if d == nil {
		return "nodoc"
	}
	return dateRe.ReplaceAllString(uuidRe.ReplaceAllString(string(d.Bytes()), `"uuid":"*"`), `"issue_date":"*"`)
}

var c15sign = dsig.NewES256Key()

// c15pipeline runs the whole operation chain on its own copy of a document and
// returns one comparable string per step.
func c15pipeline(doc []byte, yield func()) (steps []string) {
	rec := func(name string, v string) { steps = append(steps, name+"="+v) }
	errS := func(err error) string {
		if err == nil {
			return "ok"
		}
		return "error:" + gx.ErrKey(err) + ":" + err.Error()
	}
	defer func() {
		if p := recover(); p != nil {
			rec("panic", fmt.Sprint(p))
		}
	}()
	env, err := gx.EnvelopDoc(doc)
	rec("calculate", errS(err))
	if err != nil {
		return
	}
	yield()
	b, _ := json.Marshal(env)
	rec("doc", stableDoc(b))
	if bytes.Contains(doc, []byte(`"issue_date"`)) {
		rec("digest", env.Head.Digest.Value)
	} else {
		// a document without issue date gets today's date in its regime's time zone:
		// its digest changes when that day changes between two passes (seen at 05:00
		// UTC, midnight in Bogotá); everything else of it is compared with the date masked
		rec("digest", "(depends on today's date)")
	}
	yield()
	verr := env.Validate()
	rec("validate", errS(verr))
	yield()
	serr := env.Sign(c15sign)
	rec("sign", errS(serr))
	if serr == nil {
		rec("verify", errS(env.Verify(c15sign.Public())))
		rec("verify-nokey", errS(env.Verify()))
	}
	yield()
	if _, ok := env.Extract().(*bill.Invoice); ok {
		for _, o := range [][]byte{[]byte(`{"type":"credit-note","reason":"r"}`), []byte(`{"type":"corrective","reason":"r"}`)} {
			ce, cerr := env.Correct(bill.WithData(json.RawMessage(o)))
			rec("correct", errS(cerr))
			if cerr == nil {
				cb, _ := json.Marshal(ce)
				rec("corrected", stableDoc(cb))
			}
			yield()
		}
		os, oerr := env.CorrectionOptionsSchema()
		ob, _ := json.Marshal(os)
		rec("options-schema", errS(oerr)+string(ob))
	}
	re, rerr := env.Replicate()
	rec("replicate", errS(rerr))
	if rerr == nil {
		rb, _ := json.Marshal(re)
		rec("replica", stableDoc(rb))
	}
	yield()
	m, _ := json.Marshal(env)
	ms := stable(m)
	if !bytes.Contains(doc, []byte(`"issue_date"`)) {
		ms = regexp.MustCompile(`"val":"[0-9a-f]{64}"`).ReplaceAllString(dateRe.ReplaceAllString(ms, `"issue_date":"*"`), `"val":"*"`)
	}
	rec("marshal", ms)
	return
}

type c15childResult struct {
	Pipelines   int64            `json:"pipelines"`
	Divergences []map[string]any `json:"divergences"`
	Panics      int64            `json:"panics"`
	FPInit      regFP            `json:"fp_init"`
	FPSeq       regFP            `json:"fp_seq"`
	FPConc      regFP            `json:"fp_conc"`
	ChangedSeq  []string         `json:"changed_seq"`
	ChangedConc []string         `json:"changed_conc"`
	Goroutines  int              `json:"goroutines"`
	Procs       int              `json:"gomaxprocs"`
	WorkItems   int              `json:"work_items"`
	Aliases     []map[string]any `json:"aliases"`
	AliasChecks int64            `json:"alias_checks"`
	UUIDsSeen   int              `json:"uuids_seen"`
	UUIDsDup    int              `json:"uuids_duplicated"`
}

// childC15: `child C15 stress <G> <rounds> <seed> <resultfile>`
func childC15(args []string) int {
	if len(args) < 5 || args[0] != "stress" {
		return 2
	}
	var G, rounds int
	var seed int64
	fmt.Sscan(args[1], &G)
	fmt.Sscan(args[2], &rounds)
	fmt.Sscan(args[3], &seed)
	res := c15childResult{Goroutines: G, Procs: runtime.GOMAXPROCS(0)}
	res.FPInit = fingerprintRegistries()
	work := c15workList()
	if os.Getenv("VERIF_C15_COLD_ONLY") != "" {
		// a short-lived process that only does first uses: the one-per-regime items
		var w2 []c15work
		for _, w := range work {
			if strings.HasPrefix(w.Name, "regime-no-issue-date:") || (strings.HasPrefix(w.Name, "regime-addon:") && strings.HasSuffix(w.Name, ":")) {
				w2 = append(w2, w)
			}
		}
		work = w2
	}
	res.WorkItems = len(work)
	// cold pass: before anything has been calculated in this process, several
	// goroutines run the same items at the same moment, so that whatever is set up
	// on first use (per regime, addon, currency, time zone) is set up under contention
	coldG := G
	if coldG > 4 && os.Getenv("VERIF_C15_COLD_ONLY") == "" {
		coldG = 4
	}
	cold := make([][][]string, coldG)
	{
		var wg sync.WaitGroup
		gate := make(chan struct{})
		for g := 0; g < coldG; g++ {
			cold[g] = make([][]string, len(work))
			wg.Add(1)
			go func(g int) {
				defer wg.Done()
				<-gate
				// from the end of the list: the one-per-regime items come first, so every
				// goroutine meets each regime for the first time at about the same moment
				for i := len(work) - 1; i >= 0; i-- {
					cold[g][i] = c15pipeline(work[i].Doc, func() {})
				}
			}(g)
		}
		close(gate)
		wg.Wait()
	}
	// sequential pass: the expected result of every work item
	expected := make([][]string, len(work))
	for i, w := range work {
		expected[i] = c15pipeline(w.Doc, func() {})
	}
	res.FPSeq = fingerprintRegistries()
	for g := range cold {
		for i := range work {
			res.Pipelines++
			if d := firstStepDiff(expected[i], cold[g][i]); d != "" {
				if strings.HasPrefix(d, "panic") {
					res.Panics++
				}
				if len(res.Divergences) < 10 {
					res.Divergences = append(res.Divergences, map[string]any{"item": work[i].Name, "difference": "cold start: " + d})
				}
			}
		}
	}
	// no result may share a mutable node (map, slice array, struct behind a
	// pointer) with the registries: a later write to the document would then
	// land in the shared definitions
	roots := registryRoots()
	defer runtime.KeepAlive(roots) // containers built for the roots must not be freed and their addresses reused
	regAddrs := walk.Addresses(roots)
	seenAlias := map[string]bool{}
	aliasOf := func(item, what string, v any) {
		res.AliasChecks++
		for a, where := range walk.Addresses(v) {
			if rw, ok := regAddrs[a]; ok {
				k := what + "|" + pathClass(where) + "|" + pathClass(rw)
				if !seenAlias[k] && len(res.Aliases) < 20 {
					seenAlias[k] = true
					res.Aliases = append(res.Aliases, map[string]any{"item": item, "result": what, "document_path": where, "registry_path": rw})
				}
			}
		}
	}
	for _, w := range work {
		func() {
			defer func() { _ = recover() }()
			env, err := gx.EnvelopDoc(w.Doc)
			if err != nil {
				return
			}
			aliasOf(w.Name, "calculated", env)
			_ = env.Validate()
			aliasOf(w.Name, "validated", env)
			if _, ok := env.Extract().(*bill.Invoice); ok {
				if ce, cerr := env.Correct(bill.WithData(json.RawMessage(`{"type":"credit-note","reason":"r"}`))); cerr == nil {
					aliasOf(w.Name, "corrected", ce)
				}
			}
			if re, rerr := env.Replicate(); rerr == nil {
				aliasOf(w.Name, "replica", re)
			}
		}()
	}
	// concurrent pass
	var mu sync.Mutex
	var wg sync.WaitGroup
	start := make(chan struct{})
	for g := 0; g < G; g++ {
		wg.Add(1)
		go func(g int) {
			defer wg.Done()
			rng := newRng(seed, uint64(g))
			var div []map[string]any
			var n, panics int64
			<-start
			for r := 0; r < rounds; r++ {
				// every goroutine walks the same list from a different offset so that the
				// same (regime, addon) pair is processed by several goroutines at once
				off := 0
				if r%2 == 1 {
					off = rng.IntN(len(work))
				}
				for k := range work {
					i := (k + off) % len(work)
					got := c15pipeline(work[i].Doc, func() {
						switch rng.IntN(4) {
						case 0:
							runtime.Gosched()
						case 1:
							for s := 0; s < rng.IntN(200); s++ {
								_ = s * s
							}
						}
					})
					n++
					if d := firstStepDiff(expected[i], got); d != "" {
						if strings.HasPrefix(d, "panic") {
							panics++
						}
						if len(div) < 5 {
							div = append(div, map[string]any{"item": work[i].Name, "difference": d})
						}
					}
				}
			}
			mu.Lock()
			res.Pipelines += n
			res.Panics += panics
			res.Divergences = append(res.Divergences, div...)
			mu.Unlock()
		}(g)
	}
	close(start)
	wg.Wait()
	res.FPConc = fingerprintRegistries()
	res.ChangedSeq = fpDiff(res.FPInit, res.FPSeq)
	res.ChangedConc = fpDiff(res.FPSeq, res.FPConc)
	// fresh identifiers must be distinct across goroutines
	uu := map[string]int{}
	var um sync.Mutex
	var wg2 sync.WaitGroup
	for g := 0; g < G; g++ {
		wg2.Add(1)
		go func() {
			defer wg2.Done()
			for k := 0; k < 200; k++ {
				e := gobl.NewEnvelope()
				um.Lock()
				uu[e.Head.UUID.String()]++
				um.Unlock()
			}
		}()
	}
	wg2.Wait()
	res.UUIDsSeen = len(uu)
	for _, c := range uu {
		if c > 1 {
			res.UUIDsDup++
		}
	}
	b, _ := json.Marshal(res)
	if err := os.WriteFile(args[4], b, 0o644); err != nil {
		return 2
	}
	return 0
}

func firstStepDiff(want, got []string) string {
	for i := range want {
		if i >= len(got) {
			return "missing step " + trunc(want[i])
		}
		if want[i] != got[i] {
			name := strings.SplitN(want[i], "=", 2)[0]
			if strings.HasPrefix(got[i], "panic=") {
				return "panic: " + trunc(got[i])
			}
			return name + ": sequential " + trunc(want[i]) + " vs concurrent " + trunc(got[i])
		}
	}
	if len(got) > len(want) {
		return "extra step " + trunc(got[len(want)])
	}
	return ""
}

// ---- race log parsing ------------------------------------------------------------

type raceReport struct {
	A, B    string // innermost gobl frames of the two conflicting accesses
	Harness bool
	Text    string
}

func parseRaceLogs(glob string) []raceReport {
	files, _ := filepath.Glob(glob)
	var out []raceReport
	for _, f := range files {
		b, err := os.ReadFile(f)
		if err != nil {
			continue
		}
		blocks := strings.Split(string(b), "WARNING: DATA RACE")
		for _, blk := range blocks[1:] {
			if i := strings.Index(blk, "=================="); i > 0 {
				blk = blk[:i]
			}
			// two access sections: they start with "Write at"/"Read at"/"Previous write at"/"Previous read at"
			var secs []string
			cur := ""
			inAccess := false
			for _, l := range strings.Split(blk, "\n") {
				t := strings.TrimSpace(l)
				isAccess := strings.HasPrefix(t, "Write at") || strings.HasPrefix(t, "Read at") || strings.HasPrefix(t, "Previous write at") || strings.HasPrefix(t, "Previous read at") ||
					strings.HasPrefix(t, "Atomic write at") || strings.HasPrefix(t, "Atomic read at") || strings.HasPrefix(t, "Previous atomic")
				if isAccess || strings.HasPrefix(t, "Goroutine ") {
					if inAccess && cur != "" {
						secs = append(secs, cur)
					}
					cur = ""
					inAccess = isAccess
				}
				if inAccess {
					cur += l + "\n"
				}
			}
			if inAccess && cur != "" {
				secs = append(secs, cur)
			}
			var frames []string
			harness := true
			for _, s := range secs {
				fr := ""
				for _, l := range strings.Split(s, "\n") {
					t := strings.TrimSpace(l)
					if strings.HasPrefix(t, "github.com/invopop/gobl") {
						fr = strings.TrimSuffix(strings.TrimPrefix(strings.TrimPrefix(t, "github.com/invopop/gobl/"), "github.com/invopop/gobl."), "()")
						harness = false
						break
					}
				}
				if fr == "" {
					fr = "(non-gobl)"
				}
				frames = append(frames, fr)
			}
			for len(frames) < 2 {
				frames = append(frames, "(unknown)")
			}
			sort.Strings(frames)
			out = append(out, raceReport{A: frames[0], B: frames[1], Harness: harness, Text: trunc("WARNING: DATA RACE" + blk)})
		}
	}
	return out
}

func runC15(c *Ctx) {
	c.R.Rule("(a,b) G goroutines each run parse→calculate→validate→sign→verify→correct×2→options-schema→replicate→marshal on their own copies of every corpus document and of a document re-homed to every regime × addon pair (with a tag), from shifted offsets with random yields, under the race detector at GOMAXPROCS 2/4/16; every step compared with the sequential result; registries fingerprinted (incl. slice spare capacity) after init / sequential / concurrent passes; (c) bulk streams of mixed actions and latencies against a -race server, checked offline. non-trivial = a concurrent pipeline on a work item shared with other goroutines, or a bulk stream with ≥2 requests; distinct by (work item, goroutine count, GOMAXPROCS) / stream id")
	c.R.Assume("fresh UUIDs, ECDSA signature bytes and today's date are random by design and are masked before comparison; reports whose both stacks lie in harness code are inconclusive (harness race), not violations")
	root := ev.Root()
	raceBin := filepath.Join(root, "bin", "vcheck-race")
	if _, err := os.Stat(raceBin); err != nil {
		c.R.Inconclusive("no-race-binary")
		return
	}
	tmp, err := os.MkdirTemp("", "verif-c15-")
	if err != nil {
		c.R.Inconclusive("tmp")
		return
	}
	defer os.RemoveAll(tmp)

	procs := []int{4, 16}
	if c.Thorough {
		procs = []int{1, 2, 4, 16}
	}
	seenRaces := map[string]bool{}
	for _, p := range procs {
		// sized so that one child stays well inside its watchdog: with one or two
		// processors the goroutines are time-sliced, which costs several times more
		G, rounds := 8, 1
		if c.Thorough {
			switch {
			case p <= 1:
				G, rounds = 16, 1
			case p == 2:
				G, rounds = 32, 1
			case p <= 4:
				G, rounds = 64, 2
			default:
				G, rounds = 64, 4
			}
		}
		resFile := filepath.Join(tmp, fmt.Sprintf("stress-%d.json", p))
		logBase := filepath.Join(tmp, fmt.Sprintf("race-%d.log", p))
		cmd := exec.Command(raceBin, "child", "C15", "stress", fmt.Sprint(G), fmt.Sprint(rounds), fmt.Sprint(c.Seed+int64(p)), resFile)
		cmd.Env = append(os.Environ(), fmt.Sprintf("GOMAXPROCS=%d", p), "GORACE=halt_on_error=0 log_path="+logBase)
		var eb bytes.Buffer
		cmd.Stderr, cmd.Stdout = &eb, &eb
		err := runWithTimeout(cmd, 40*time.Minute)
		rb, rerr := os.ReadFile(resFile)
		var res c15childResult
		if rerr != nil || json.Unmarshal(rb, &res) != nil {
			out := eb.String()
			if strings.Contains(out, "fatal error: concurrent map") {
				c.R.Fail("fatal:concurrent-map-access", "the stress process died: "+trunc(out), map[string]any{"gomaxprocs": p, "output": trunc(out)})
			} else {
				c.R.Inconclusive(fmt.Sprintf("stress-child-failed:gomaxprocs=%d:%v:%s", p, err, trunc(out)))
			}
			continue
		}
		c.R.Cases(res.Pipelines, res.Pipelines)
		c.R.Count(fmt.Sprintf("pipelines:gomaxprocs=%d", p), res.Pipelines)
		c.R.Set("work_items", res.WorkItems)
		c.R.Set("registry_nodes_fingerprinted", res.FPInit.Stats.Nodes)
		c.R.Set("registry_slices_with_spare_capacity", res.FPInit.Stats.SpareSlices)
		c.R.Set("registry_spare_elements", res.FPInit.Stats.SpareElements)
		for _, d := range res.Divergences {
			c.R.Fail("diverges:"+strings.SplitN(fmt.Sprint(d["difference"]), ":", 2)[0], fmt.Sprintf("GOMAXPROCS=%d, %d goroutines: %s: %s", p, G, d["item"], d["difference"]), d)
		}
		for _, k := range res.ChangedSeq {
			c.R.Fail("registry-write:"+k+":sequential", "shared definitions under "+k+" changed during plain sequential use (an in-place append or write into a registry)", map[string]any{"root": k})
		}
		for _, k := range res.ChangedConc {
			c.R.Fail("registry-write:"+k+":concurrent", "shared definitions under "+k+" changed during concurrent use", map[string]any{"root": k})
		}
		c.R.Count("registry_alias_checks", res.AliasChecks)
		for _, a := range res.Aliases {
			c.R.Fail(fmt.Sprintf("registry-alias:%v:%s", a["result"], pathClass(fmt.Sprint(a["registry_path"]))), fmt.Sprintf("%v: the %v document shares the mutable node %v with the shared definitions at %v", a["item"], a["result"], a["document_path"], a["registry_path"]), a)
		}
		if res.UUIDsDup > 0 {
			c.R.Fail("diverges:uuid-duplicate", fmt.Sprintf("%d envelope identifiers were handed out twice", res.UUIDsDup), nil)
		}
		for _, rr := range parseRaceLogs(logBase + "*") {
			if rr.Harness {
				c.R.Inconclusive("harness-race")
				c.R.Set("harness_race", rr.Text)
				continue
			}
			key := rr.A + "|" + rr.B
			c.R.Count("race_reports", 1)
			if !seenRaces[key] {
				seenRaces[key] = true
				c.R.Fail("race:"+key, fmt.Sprintf("DATA RACE between %s and %s (GOMAXPROCS=%d)", rr.A, rr.B, p), map[string]any{"report": rr.Text})
			}
		}
		if c.R.WantSample() {
			c.R.Sample(map[string]any{"gomaxprocs": p, "goroutines": G, "pipelines": res.Pipelines, "race_reports": len(parseRaceLogs(logBase + "*"))})
		}
	}
	// cold-start children: processes that do nothing but first uses, all goroutines
	// released together over the one-per-regime documents. The race detector keeps
	// a bounded history per address, so a first use is best observed when the
	// other accesses follow at once; several short processes give several chances.
	for k := 0; k < c.N(6, 40); k++ {
		resFile := filepath.Join(tmp, fmt.Sprintf("cold-%d.json", k))
		logBase := filepath.Join(tmp, fmt.Sprintf("race-cold-%d.log", k))
		p := []int{16, 4, 8, 2}[k%4]
		cmd := exec.Command(raceBin, "child", "C15", "stress", "16", "0", fmt.Sprint(c.Seed+int64(1000+k)), resFile)
		cmd.Env = append(os.Environ(), fmt.Sprintf("GOMAXPROCS=%d", p), "VERIF_C15_COLD_ONLY=1", "GORACE=halt_on_error=0 log_path="+logBase)
		var eb bytes.Buffer
		cmd.Stderr, cmd.Stdout = &eb, &eb
		_ = runWithTimeout(cmd, 10*time.Minute)
		rb, rerr := os.ReadFile(resFile)
		var res c15childResult
		if rerr != nil || json.Unmarshal(rb, &res) != nil {
			out := eb.String()
			if strings.Contains(out, "fatal error: concurrent map") {
				c.R.Fail("fatal:concurrent-map-access", "a cold-start process died: "+trunc(out), map[string]any{"gomaxprocs": p, "output": trunc(out)})
			} else {
				c.R.Inconclusive(fmt.Sprintf("cold-child-failed:%s", trunc(out)))
			}
			continue
		}
		c.R.Cases(res.Pipelines, res.Pipelines)
		c.R.Count("cold_start_processes", 1)
		c.R.Count("cold_start_pipelines", res.Pipelines)
		for _, d := range res.Divergences {
			c.R.Fail("diverges:"+strings.SplitN(fmt.Sprint(d["difference"]), ":", 2)[0], fmt.Sprintf("cold-start process: %s: %s", d["item"], d["difference"]), d)
		}
		for _, rr := range parseRaceLogs(logBase + "*") {
			if rr.Harness {
				c.R.Inconclusive("harness-race")
				continue
			}
			key := rr.A + "|" + rr.B
			c.R.Count("race_reports", 1)
			if !seenRaces[key] {
				seenRaces[key] = true
				c.R.Fail("race:"+key, fmt.Sprintf("DATA RACE between %s and %s (cold-start process, GOMAXPROCS=%d)", rr.A, rr.B, p), map[string]any{"report": rr.Text})
			}
		}
	}
	c15bulk(c, tmp)
	c.Require("bulk_streams:gomaxprocs=1", "bulk_sign_key_ids_checked", "registry_alias_checks", "cold_start_processes", "bulk_requests", "bulk_streams_from_half_closed_client")
}

// ---- bulk stream checker -----------------------------------------------------------

type bulkReq struct {
	Action  string `json:"action"`
	ReqID   string `json:"req_id"`
	Payload any    `json:"payload,omitempty"`
}

type bulkResp struct {
	ReqID   string          `json:"req_id"`
	SeqID   int64           `json:"seq_id"`
	Payload json.RawMessage `json:"payload"`
	Error   json.RawMessage `json:"error"`
	IsFinal bool            `json:"is_final"`
	arrival int
}

func readBulk(r io.Reader) ([]bulkResp, error) {
	var out []bulkResp
	sc := bufio.NewScanner(r)
	sc.Buffer(make([]byte, 1<<20), 256<<20)
	for sc.Scan() {
		if len(bytes.TrimSpace(sc.Bytes())) == 0 {
			continue
		}
		var br bulkResp
		if err := json.Unmarshal(sc.Bytes(), &br); err != nil {
			return out, fmt.Errorf("bad response line: %s", trunc(sc.Text()))
		}
		br.arrival = len(out)
		out = append(out, br)
	}
	return out, sc.Err()
}

// c15bulkFewProcessors sends one short mixed stream to servers limited to one
// and two processors: every request must be answered and the final marker must
// arrive, however few processors run the request goroutines. A stream that gets
// no answer within the client's watchdog is retried twice on a fresh server;
// only three silent streams in a row are reported.
func c15bulkFewProcessors(c *Ctx, gbin string) {
	b64 := func(b []byte) string { return base64.StdEncoding.EncodeToString(b) }
	items := corpus.Golden()
	if len(items) == 0 {
		return
	}
	doc, _ := gx.DocJSON(items[0].Data)
	var body bytes.Buffer
	reqs := []bulkReq{
		{"sleep", "f1", "20ms"}, {"ping", "f2", nil}, {"schemas", "f3", nil}, {"frobnicate", "f4", nil},
		{"build", "f5", map[string]any{"data": b64(doc)}}, {"validate", "f6", map[string]any{"data": b64(items[0].Data)}}, {"ping", "f7", nil},
	}
	for _, r := range reqs {
		l, _ := json.Marshal(r)
		body.Write(l)
		body.WriteByte('\n')
	}
	for _, procs := range []int{1, 2} {
		silent := 0
		for attempt := 0; attempt < 3; attempt++ {
			server, err := srv.Start(gbin, fmt.Sprintf("GOMAXPROCS=%d", procs))
			if err != nil {
				c.R.Inconclusive("server-start:" + err.Error())
				return
			}
			server.Client.Timeout = 90 * time.Second
			resp, err := server.PostStream("/bulk", bytes.NewReader(body.Bytes()))
			var rs []bulkResp
			if err == nil {
				rs, err = readBulk(resp.Body)
				resp.Body.Close()
			}
			server.Kill()
			c.R.Count(fmt.Sprintf("bulk_streams:gomaxprocs=%d", procs), 1)
			if err != nil || len(rs) == 0 {
				silent++
				continue
			}
			answered := map[string]bool{}
			finals := 0
			for _, r := range rs {
				if r.IsFinal {
					finals++
				} else {
					answered[r.ReqID] = true
				}
			}
			if len(answered) != len(reqs) || finals != 1 || !rs[len(rs)-1].IsFinal {
				c.R.Fail(fmt.Sprintf("bulk:few-processors:gomaxprocs=%d", procs), fmt.Sprintf("server with GOMAXPROCS=%d: %d of %d requests answered, %d final markers", procs, len(answered), len(reqs), finals), map[string]any{"gomaxprocs": procs})
			}
			break
		}
		if silent == 3 {
			c.R.Fail(fmt.Sprintf("bulk:no-response:gomaxprocs=%d", procs), fmt.Sprintf("server with GOMAXPROCS=%d: a stream of %d requests got no response within 90 s, three times on fresh servers", procs, len(reqs)), map[string]any{"gomaxprocs": procs})
		}
	}
}

func c15bulk(c *Ctx, tmp string) {
	gbin := filepath.Join(ev.Root(), "bin", "gobl-race")
	if _, err := os.Stat(gbin); err != nil {
		c.R.Inconclusive("no-race-cli-binary")
		return
	}
	c15bulkFewProcessors(c, gbin)
	logBase := filepath.Join(tmp, "server-race.log")
	server, err := srv.Start(gbin, "GORACE=halt_on_error=0 log_path="+logBase)
	if err != nil {
		c.R.Inconclusive("server-start:" + err.Error())
		return
	}
	defer server.Stop()
	items := corpus.Golden()
	pub, _ := json.Marshal(server.Key.Public())
	_ = pub
	mkReq := func(rng interface{ IntN(int) int }, id string) (bulkReq, string) {
		it := items[rng.IntN(len(items))]
		doc, _ := gx.DocJSON(it.Data)
		b64env := base64.StdEncoding.EncodeToString(it.Data)
		b64doc := base64.StdEncoding.EncodeToString(doc)
		switch rng.IntN(13) {
		case 0:
			return bulkReq{"ping", id, nil}, "ping"
		case 1:
			d := fmt.Sprintf("%dms", rng.IntN(40))
			return bulkReq{"sleep", id, d}, "sleep"
		case 2:
			return bulkReq{"build", id, map[string]any{"data": b64doc}}, "build:" + it.Rel
		case 3:
			return bulkReq{"validate", id, map[string]any{"data": b64env}}, "validate:" + it.Rel
		case 4:
			if rng.IntN(2) == 0 {
				// a request that brings its own key, among requests relying on the server's
				return bulkReq{"sign", id, map[string]any{"data": b64doc, "privatekey": json.RawMessage(c15ownKeyJSON)}}, "sign-own-key:" + it.Rel
			}
			return bulkReq{"sign", id, map[string]any{"data": b64doc}}, "sign:" + it.Rel
		case 5:
			return bulkReq{"verify", id, map[string]any{"data": b64env, "publickey": json.RawMessage(pub)}}, "verify:" + it.Rel
		case 6:
			return bulkReq{"correct", id, map[string]any{"data": b64env, "options": base64.StdEncoding.EncodeToString([]byte(`{"type":"credit-note","reason":"r"}`))}}, "correct:" + it.Rel
		case 7:
			return bulkReq{"replicate", id, map[string]any{"data": b64env}}, "replicate:" + it.Rel
		case 8:
			return bulkReq{"schema", id, map[string]any{"path": []string{"bill/invoice", "envelope", "num/amount", "zz/none"}[rng.IntN(4)]}}, "schema"
		case 9:
			return bulkReq{"schemas", id, nil}, "schemas"
		case 10:
			return bulkReq{"regime", id, map[string]any{"code": []string{"es", "PT", "mx", "zz"}[rng.IntN(4)]}}, "regime"
		case 11:
			return bulkReq{"keygen", id, nil}, "keygen"
		default:
			if rng.IntN(2) == 0 {
				return bulkReq{"frobnicate", id, nil}, "unknown-action"
			}
			return bulkReq{"build", id, "not-an-object"}, "malformed-payload"
		}
	}
	nStreams := c.N(40, 600)
	standalone := sync.Map{} // request JSON (without id) -> response payload/error of the same request sent alone
	alone := func(req bulkReq) (string, error) {
		req.ReqID = "alone"
		b, _ := json.Marshal(req)
		if v, ok := standalone.Load(string(b)); ok {
			return v.(string), nil
		}
		resp, err := server.PostStream("/bulk", bytes.NewReader(append(b, '\n')))
		if err != nil {
			return "", err
		}
		defer resp.Body.Close()
		rs, err := readBulk(resp.Body)
		if err != nil || len(rs) != 2 {
			return "", fmt.Errorf("standalone stream gave %d lines (%v)", len(rs), err)
		}
		v := comparablePayload(req.Action, rs[0])
		standalone.Store(string(b), v)
		return v, nil
	}
	perms := sync.Map{}
	var maxReorder, waited int64
	var mm sync.Mutex
	conc := 8
	sem := make(chan struct{}, conc)
	var wg sync.WaitGroup
	for s := 0; s < nStreams; s++ {
		wg.Add(1)
		sem <- struct{}{}
		go func(s int) {
			defer wg.Done()
			defer func() { <-sem }()
			rng := newRng(c.Seed, uint64(9000+s))
			n := 5 + rng.IntN(c.N(40, 196))
			var reqs []bulkReq
			var kinds []string
			var body bytes.Buffer
			for i := 0; i < n; i++ {
				r, k := mkReq(rng, fmt.Sprintf("s%d-r%d", s, i+1))
				reqs = append(reqs, r)
				kinds = append(kinds, k)
				b, _ := json.Marshal(r)
				body.Write(b)
				body.WriteByte('\n')
			}
			endsBroken := rng.IntN(5) == 0
			if endsBroken {
				body.WriteString("{\"action\": \n")
			}
			wit := func() map[string]any {
				return map[string]any{"stream": s, "requests": kinds}
			}
			// every third stream comes from a client that sends everything, closes its
			// sending half and keeps reading (a pipe into nc); its last requests are slow
			// ones, so that responses are still due when the server sees the end of input
			var resp *http.Response
			var err error
			halfClosed := s%3 == 2 && !endsBroken
			if halfClosed {
				for k := 0; k < 2; k++ {
					n++
					r := bulkReq{"sleep", fmt.Sprintf("s%d-r%d", s, n), fmt.Sprintf("%dms", 60+40*k+rng.IntN(40))}
					reqs = append(reqs, r)
					kinds = append(kinds, "sleep")
					b, _ := json.Marshal(r)
					body.Write(b)
					body.WriteByte('\n')
				}
				c.R.Count("bulk_streams_from_half_closed_client", 1)
				resp, err = server.PostHalfClosed("/bulk", body.Bytes(), 5*time.Minute)
			} else {
				resp, err = server.PostStream("/bulk", &body)
			}
			if err != nil {
				c.R.Count("bulk_transport_errors", 1)
				return
			}
			rs, rerr := readBulk(resp.Body)
			resp.Body.Close()
			c.R.Case(n >= 2, ev.Hash("stream", fmt.Sprint(s), fmt.Sprint(c.Seed)))
			c.R.Count("bulk_requests", int64(n))
			if rerr != nil {
				c.R.Fail("bulk:bad-line", rerr.Error(), wit())
				return
			}
			// offline check of the recorded stream
			byID := map[string][]bulkResp{}
			finals := 0
			for _, r := range rs {
				if r.IsFinal {
					finals++
					continue
				}
				byID[r.ReqID] = append(byID[r.ReqID], r)
			}
			if finals != 1 {
				c.R.Fail("bulk:final-count", fmt.Sprintf("stream %d: %d final markers", s, finals), wit())
				return
			}
			last := rs[len(rs)-1]
			if !last.IsFinal {
				c.R.Fail("bulk:final-early", fmt.Sprintf("stream %d: the final marker is not the last line (%d lines follow it)", s, len(rs)-1-finalIndex(rs)), wit())
			}
			if last.IsFinal && last.SeqID != int64(n+1) {
				c.R.Fail("bulk:wrong-seq", fmt.Sprintf("stream %d: final marker has seq_id %d, expected %d", s, last.SeqID, n+1), wit())
			}
			if endsBroken && last.IsFinal && (string(last.Error) == "null" || len(last.Error) == 0) {
				c.R.Fail("bulk:final-error-missing", "stream ended by malformed JSON but the final marker carries no error", wit())
			}
			order := make([]int, 0, n)
			for i, rq := range reqs {
				got := byID[rq.ReqID]
				switch {
				case len(got) == 0:
					c.R.Fail("bulk:missing", fmt.Sprintf("stream %d: request %s (%s) got no response", s, rq.ReqID, kinds[i]), wit())
					continue
				case len(got) > 1:
					c.R.Fail("bulk:duplicate", fmt.Sprintf("stream %d: request %s got %d responses", s, rq.ReqID, len(got)), wit())
				}
				g := got[0]
				order = append(order, g.arrival)
				if g.SeqID != int64(i+1) {
					c.R.Fail("bulk:wrong-seq", fmt.Sprintf("stream %d: request %s is at position %d but its response says seq_id %d", s, rq.ReqID, i+1, g.SeqID), wit())
				}
				want, err := alone(rq)
				if err != nil {
					c.R.Count("standalone_errors", 1)
					continue
				}
				// a signed envelope must carry the key id of the key the request asked for:
				// its own, or the server's default (the standalone run shares the server, so
				// this is checked against what the harness knows, not against that run)
				if rq.Action == "sign" && (len(g.Error) == 0 || string(g.Error) == "null") {
					wantKid := server.Key.ID()
					if strings.HasPrefix(kinds[i], "sign-own-key") {
						wantKid = c15ownKey.ID()
					}
					c.R.Count("bulk_sign_key_ids_checked", 1)
					if kid := c15sigKid(g.Payload); kid != wantKid {
						c.R.Fail("bulk:sign-key:"+strings.SplitN(kinds[i], ":", 2)[0], fmt.Sprintf("stream %d: %s (%s) was signed with key id %q, expected %q", s, rq.ReqID, kinds[i], kid, wantKid), wit())
					}
				}
				have := comparablePayload(rq.Action, g)
				if halfClosed && have != want && strings.Contains(string(g.Error), "context canceled") {
					// net/http cancels the request context when it sees the client's FIN; an
					// operation caught by that answers with the cancellation error.  Nothing
					// is promised for a cancelled request beyond its one response (§10.10).
					c.R.Count("bulk_half_closed_requests_answered_cancelled", 1)
					continue
				}
				if have != want {
					c.R.Fail("bulk:payload:"+strings.SplitN(kinds[i], ":", 2)[0], fmt.Sprintf("stream %d: response to %s (%s) differs from the standalone operation: %s vs %s", s, rq.ReqID, kinds[i], trunc(have), trunc(want)), wit())
				}
			}
			for id := range byID {
				if !strings.HasPrefix(id, fmt.Sprintf("s%d-", s)) {
					c.R.Fail("bulk:wrong-req-id", fmt.Sprintf("stream %d received a response for foreign request id %q", s, id), wit())
				}
			}
			// interleaving actually observed
			perm := fmt.Sprint(order)
			perms.Store(perm, true)
			reorder := int64(0)
			for i, a := range order {
				if d := int64(a - i); d > reorder {
					reorder = d
				} else if -d > reorder {
					reorder = -d
				}
			}
			mm.Lock()
			if reorder > maxReorder {
				maxReorder = reorder
			}
			for i, k := range kinds {
				if k == "sleep" && i < len(order) && order[i] >= n-2 {
					waited++
					break
				}
			}
			mm.Unlock()
		}(s)
	}
	wg.Wait()
	np := 0
	perms.Range(func(k, v any) bool { np++; return true })
	c.R.Set("bulk_streams", nStreams)
	c.R.Set("bulk_distinct_response_orders", np)
	c.R.Set("bulk_max_reorder_distance", maxReorder)
	c.R.Set("bulk_streams_final_waited_for_sleep", waited)
	if !server.Alive() {
		_, what := server.Crashed()
		c.R.Fail("bulk:server-died", "server died during the bulk workload: "+trunc(what), nil)
	}
	server.Stop()
	seen := map[string]bool{}
	for _, rr := range parseRaceLogs(logBase + "*") {
		key := rr.A + "|" + rr.B
		c.R.Count("server_race_reports", 1)
		if !seen[key] {
			seen[key] = true
			c.R.Fail("race:server:"+key, fmt.Sprintf("DATA RACE in the server between %s and %s", rr.A, rr.B), map[string]any{"report": rr.Text})
		}
	}
}

func finalIndex(rs []bulkResp) int {
	for i, r := range rs {
		if r.IsFinal {
			return i
		}
	}
	return -1
}

// comparablePayload reduces a response to what is determined by the request.
var c15ownKey = dsig.NewES256Key()
var c15ownKeyJSON, _ = json.Marshal(c15ownKey)

// c15sigKid reads the key id from the protected header of the first signature.
func c15sigKid(payload json.RawMessage) string {
	var e struct {
		Sigs []string `json:"sigs"`
	}
	if json.Unmarshal(payload, &e) != nil || len(e.Sigs) == 0 {
		return "(no signature)"
	}
	seg := strings.SplitN(e.Sigs[0], ".", 2)[0]
	b, err := base64.RawURLEncoding.DecodeString(seg)
	if err != nil {
		return "(unreadable header)"
	}
	var h struct {
		Kid string `json:"kid"`
	}
	_ = json.Unmarshal(b, &h)
	return h.Kid
}

func comparablePayload(action string, r bulkResp) string {
	if len(r.Error) > 0 && string(r.Error) != "null" {
		return "error:" + string(r.Error)
	}
	switch action {
	case "keygen":
		var k struct {
			Private json.RawMessage `json:"private"`
			Public  json.RawMessage `json:"public"`
		}
		if json.Unmarshal(r.Payload, &k) == nil && len(k.Private) > 10 && len(k.Public) > 10 {
			return "keypair"
		}
		return "bad-keygen:" + string(r.Payload)
	case "sign":
		return stable(r.Payload)
	case "build", "correct", "replicate":
		s := stable(r.Payload)
		if action == "replicate" {
			s = dateRe.ReplaceAllString(s, `"issue_date":"*"`)
		}
		// a fresh envelope's digest depends on the fresh document uuid
		return regexp.MustCompile(`"val":"[0-9a-f]{64}"`).ReplaceAllString(s, `"val":"*"`)
	}
	return string(r.Payload)
}
