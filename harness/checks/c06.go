package checks

import (
	"encoding/json"
	"fmt"
	"math"
	"math/big"
	"os"
	"path/filepath"
	"regexp"
	"strings"

	"github.com/invopop/gobl/num"

	"verif/internal/dec"
	"verif/internal/ev"
)

// C06 — amount/percentage text codec round-trips and accepts only the schema.
//
// Oracle: the accepted language is read at run time from the published files
// data/schemas/num/{amount,percentage}.json, combined with an exact big-int
// value computed by an own digit parser and the int64 fit test.

func init() { Register("C06", runC06) }

func loadPattern(file, def string) (*regexp.Regexp, error) {
	b, err := os.ReadFile(filepath.Join(ev.Repo(), "data/schemas/num", file))
	if err != nil {
		return nil, err
	}
	var s struct {
		Defs map[string]struct {
			Pattern string `json:"pattern"`
		} `json:"$defs"`
	}
	if err := json.Unmarshal(b, &s); err != nil {
		return nil, err
	}
	p := s.Defs[def].Pattern
	if p == "" {
		return nil, fmt.Errorf("no pattern in %s", file)
	}
	return regexp.Compile(p)
}

// shape abstracts a string: digit runs become 'd'.
func shape(s string) string {
	var b strings.Builder
	prevD := false
	for _, r := range s {
		if r >= '0' && r <= '9' {
			if !prevD {
				b.WriteByte('d')
			}
			prevD = true
			continue
		}
		prevD = false
		if r < 0x21 || r > 0x7e {
			fmt.Fprintf(&b, "U+%04X", r)
		} else {
			b.WriteRune(r)
		}
	}
	if b.Len() == 0 {
		return "empty"
	}
	return b.String()
}

// exactValue parses a pattern member into exact units/exp.
func exactValue(s string) (dec.D, bool) {
	return dec.Parse(s)
}

type c06 struct {
	c     *Ctx
	amtRe *regexp.Regexp
	pctRe *regexp.Regexp
	local map[string]int64
}

func (k *c06) cnt(s string) { k.local[s]++ }
func (k *c06) flush() {
	for a, b := range k.local {
		k.c.R.Count(a, b)
	}
	k.local = map[string]int64{}
}

type amtReader struct {
	name string
	fn   func(s string) (num.Amount, error, bool) // applicable=false when the reader cannot be fed s
}

func amountReaders() []amtReader {
	return []amtReader{
		{"AmountFromString", func(s string) (num.Amount, error, bool) {
			a, err := num.AmountFromString(s)
			return a, err, true
		}},
		{"Amount.UnmarshalText", func(s string) (num.Amount, error, bool) {
			a := num.MakeAmount(-777, 5) // sentinel to detect silent no-ops
			err := a.UnmarshalText([]byte(s))
			return a, err, true
		}},
		{"json-quoted", func(s string) (num.Amount, error, bool) {
			q, err := json.Marshal(s)
			if err != nil || !json.Valid(q) {
				return num.Amount{}, nil, false
			}
			a := num.MakeAmount(-777, 5)
			err = json.Unmarshal(q, &a)
			return a, err, true
		}},
		{"json-quoted-in-struct", func(s string) (num.Amount, error, bool) {
			q, err := json.Marshal(map[string]string{"a": s})
			if err != nil {
				return num.Amount{}, nil, false
			}
			v := struct {
				A num.Amount `json:"a"`
			}{A: num.MakeAmount(-777, 5)}
			err = json.Unmarshal(q, &v)
			return v.A, err, true
		}},
		{"json-bare", func(s string) (num.Amount, error, bool) {
			if s == "" || !json.Valid([]byte(s)) || s[0] == '"' || s == "null" || strings.TrimSpace(s) != s {
				return num.Amount{}, nil, false
			}
			a := num.MakeAmount(-777, 5)
			err := json.Unmarshal([]byte(s), &a)
			return a, err, true
		}},
	}
}

type pctReader struct {
	name string
	fn   func(s string) (num.Percentage, error, bool)
}

func pctReaders() []pctReader {
	return []pctReader{
		{"PercentageFromString", func(s string) (num.Percentage, error, bool) {
			p, err := num.PercentageFromString(s)
			return p, err, true
		}},
		{"Percentage.UnmarshalText", func(s string) (num.Percentage, error, bool) {
			p := num.MakePercentage(-777, 5)
			err := p.UnmarshalText([]byte(s))
			return p, err, true
		}},
		{"pct-json-quoted", func(s string) (num.Percentage, error, bool) {
			q, err := json.Marshal(s)
			if err != nil || !json.Valid(q) {
				return num.Percentage{}, nil, false
			}
			p := num.MakePercentage(-777, 5)
			err = json.Unmarshal(q, &p)
			return p, err, true
		}},
		{"pct-json-bare", func(s string) (num.Percentage, error, bool) {
			if s == "" || !json.Valid([]byte(s)) || s[0] == '"' || s == "null" || strings.TrimSpace(s) != s {
				return num.Percentage{}, nil, false
			}
			p := num.MakePercentage(-777, 5)
			err := json.Unmarshal([]byte(s), &p)
			return p, err, true
		}},
	}
}

// checkString feeds s to every reader and compares with the oracle. Returns
// whether s is a pattern member or a near miss.
func (k *c06) checkString(s string) bool {
	// --- amounts
	member := k.amtRe.MatchString(s)
	var want dec.D
	fits := false
	if member {
		var ok bool
		want, ok = exactValue(s)
		if !ok {
			k.c.R.Fail("oracle:parse", "oracle cannot parse pattern member "+s, s)
			return true
		}
		fits = want.FitsInt64()
		if fits {
			k.cnt("amount_members_fitting")
		} else {
			k.cnt("amount_members_overflowing")
		}
	}
	for _, rd := range amountReaders() {
		got, err, ok := rd.fn(s)
		if !ok {
			continue
		}
		k.cnt("reads:" + rd.name)
		accepted := err == nil
		switch {
		case member && fits:
			if !accepted {
				k.c.R.Fail("rejects:"+shapeClass(s, want), fmt.Sprintf("%s rejects pattern member %q that fits 64 bits: %v", rd.name, s, err), map[string]any{"reader": rd.name, "input": s})
			} else if g := toD(got); !g.Same(want) {
				k.c.R.Fail("misreads:"+shapeClass(s, want), fmt.Sprintf("%s reads %q as %s (exp %d), exact %s (exp %d)", rd.name, s, g, g.E, want, want.E), map[string]any{"reader": rd.name, "input": s, "got": g.String()})
			}
		default:
			if accepted {
				cls := shape(s)
				if member && !fits {
					cls = "overflow-wrap"
				}
				k.c.R.Fail("accepts:"+cls, fmt.Sprintf("%s accepts %q (not a 64-bit pattern member) as %s", rd.name, s, toD(got)), map[string]any{"reader": rd.name, "input": s, "got": toD(got).String()})
			}
		}
	}
	// --- percentages: pattern ∪ documented factor form ∪ (for the string readers) the empty string
	pm := k.pctRe.MatchString(s)
	var pwant dec.D
	pfits := false
	lenient := false
	pmember := pm || member
	if pm {
		v, ok := exactValue(s) // includes /100 for the % suffix
		if !ok {
			k.c.R.Fail("oracle:parse", "oracle cannot parse pattern member "+s, s)
			return true
		}
		pwant = v
		pfits = v.FitsInt64()
		// the reader scales the written number by 100 through num's float
		// arithmetic: outside the 2^52 domain of C05 only "error or the exact
		// value" is demanded, not acceptance.
		if pfits && !in52(new(big.Int).Mul(v.U, big.NewInt(100))) {
			lenient = true
			k.cnt("pct_read_beyond_2^52")
		}
	} else if member {
		pwant, pfits = want, fits
	}
	for _, rd := range pctReaders() {
		got, err, ok := rd.fn(s)
		if !ok {
			continue
		}
		k.cnt("reads:" + rd.name)
		accepted := err == nil
		if s == "" && (rd.name == "PercentageFromString" || rd.name == "Percentage.UnmarshalText") {
			// documented (tested) third form: empty text is the zero percentage
			continue
		}
		switch {
		case pmember && pfits:
			if !accepted {
				if !lenient {
					k.c.R.Fail("rejects:pct:"+shapeClass(s, pwant), fmt.Sprintf("%s rejects %q: %v", rd.name, s, err), map[string]any{"reader": rd.name, "input": s})
				}
			} else if g := pToD(got); !g.Same(pwant) {
				cl := shapeClass(s, pwant)
				if lenient {
					cl = "beyond-2^52"
				}
				k.c.R.Fail("misreads:pct:"+cl, fmt.Sprintf("%s reads %q as factor %s (exp %d), exact %s (exp %d)", rd.name, s, g, g.E, pwant, pwant.E), map[string]any{"reader": rd.name, "input": s, "got": g.String()})
			}
		default:
			if accepted {
				cls := shape(s)
				if pmember && !pfits {
					cls = "overflow-wrap"
				}
				k.c.R.Fail("accepts:pct:"+cls, fmt.Sprintf("%s accepts %q (outside the accepted language) as factor %s", rd.name, s, pToD(got)), map[string]any{"reader": rd.name, "input": s, "got": pToD(got).String()})
			}
		}
	}
	return member || pm
}

func shapeClass(s string, v dec.D) string {
	if v.U != nil && v.U.IsInt64() && v.U.Int64() == math.MinInt64 {
		return "min-int64"
	}
	return shape(s)
}

// checkWrite: writers over (value, exp).
func (k *c06) checkWrite(v int64, e uint32) {
	a := num.MakeAmount(v, e)
	want := dec.New(v, int(e))
	cls := "plain"
	if v == math.MinInt64 {
		cls = "min-int64"
	} else if v < 0 {
		cls = "negative"
	}
	texts := map[string]string{"String": a.String()}
	if b, err := a.MarshalText(); err == nil {
		texts["MarshalText"] = string(b)
	} else {
		k.c.R.Fail("writes:error:"+cls, "MarshalText error "+err.Error(), want.String())
	}
	if b, err := json.Marshal(a); err == nil {
		var s string
		if err := json.Unmarshal(b, &s); err != nil {
			k.c.R.Fail("writes:not-a-json-string:"+cls, string(b), want.String())
		} else {
			texts["json.Marshal"] = s
		}
	} else {
		k.c.R.Fail("writes:error:"+cls, "json.Marshal error "+err.Error(), want.String())
	}
	for w, t := range texts {
		k.cnt("writes:" + w)
		if !k.amtRe.MatchString(t) {
			k.c.R.Fail("writes:pattern:"+cls, fmt.Sprintf("%s of units=%d exp=%d is %q: not in the published pattern", w, v, e, t), map[string]any{"units": v, "exp": e, "text": t})
			continue
		}
		if t != want.String() {
			k.c.R.Fail("writes:value:"+cls, fmt.Sprintf("%s of units=%d exp=%d is %q, exact %q", w, v, e, t, want.String()), map[string]any{"units": v, "exp": e, "text": t})
		}
		back, err := num.AmountFromString(t)
		if err != nil || back.Value() != v || back.Exp() != e {
			k.c.R.Fail("roundtrip:"+cls, fmt.Sprintf("units=%d exp=%d written %q reads back %v (err %v)", v, e, t, toD(back), err), map[string]any{"units": v, "exp": e, "text": t})
		}
		var viaJSON num.Amount
		q, _ := json.Marshal(t)
		if err := json.Unmarshal(q, &viaJSON); err != nil || viaJSON.Value() != v || viaJSON.Exp() != e {
			k.c.R.Fail("roundtrip-json:"+cls, fmt.Sprintf("units=%d exp=%d written %q reads back %v (err %v)", v, e, t, toD(viaJSON), err), map[string]any{"units": v, "exp": e, "text": t})
		}
	}
	// MinimalString: pattern member, same value
	ms := a.MinimalString()
	if !k.amtRe.MatchString(ms) {
		k.c.R.Fail("writes:minimal-pattern:"+cls, fmt.Sprintf("MinimalString of units=%d exp=%d is %q", v, e, ms), map[string]any{"units": v, "exp": e, "text": ms})
	} else if m, ok := dec.Parse(ms); !ok || m.Cmp(want) != 0 {
		k.c.R.Fail("writes:minimal-value:"+cls, fmt.Sprintf("MinimalString of units=%d exp=%d is %q", v, e, ms), map[string]any{"units": v, "exp": e, "text": ms})
	}
}

// checkWritePct: percentages inside the arithmetic domain (|units|*100 < 2^52).
func (k *c06) checkWritePct(v int64, e uint32) {
	if !in52(new(big.Int).Mul(big.NewInt(v), big.NewInt(100))) {
		k.cnt("pct_write_out_of_domain")
		return
	}
	p := num.MakePercentage(v, e)
	t := p.String()
	k.cnt("writes:Percentage.String")
	if !k.pctRe.MatchString(t) {
		k.c.R.Fail("writes:pct-pattern", fmt.Sprintf("Percentage units=%d exp=%d written %q", v, e, t), map[string]any{"units": v, "exp": e, "text": t})
		return
	}
	if b, err := json.Marshal(p); err != nil || string(b) != `"`+t+`"` {
		k.c.R.Fail("writes:pct-json", fmt.Sprintf("json.Marshal %s vs String %q", b, t), map[string]any{"units": v, "exp": e})
	}
	// exact value of the text must equal the percentage value
	w, ok := dec.Parse(t)
	if !ok || w.Cmp(dec.New(v, int(e))) != 0 {
		k.c.R.Fail("writes:pct-value", fmt.Sprintf("Percentage units=%d exp=%d written %q (exact value of text %v)", v, e, t, w), map[string]any{"units": v, "exp": e, "text": t})
	}
	back, err := num.PercentageFromString(t)
	if err != nil || pToD(back).Cmp(dec.New(v, int(e))) != 0 {
		k.c.R.Fail("roundtrip:pct-value", fmt.Sprintf("Percentage units=%d exp=%d written %q reads back %v err=%v", v, e, t, pToD(back), err), map[string]any{"units": v, "exp": e, "text": t})
		return
	}
	if !in52(new(big.Int).Mul(big.NewInt(back.Value()), big.NewInt(100))) {
		// the re-read percentage carries two more decimals; writing it again
		// multiplies its units by 100 through num's float arithmetic, which is
		// outside the 2^52 domain of C05 here
		k.cnt("pct_rewrite_out_of_domain")
		return
	}
	if t2 := back.String(); t2 != t {
		k.c.R.Fail("roundtrip:pct-text-unstable", fmt.Sprintf("Percentage units=%d exp=%d written %q, re-written %q", v, e, t, t2), map[string]any{"units": v, "exp": e, "text": t, "text2": t2})
	}
}

func runC06(c *Ctx) {
	c.R.Rule("strings: exhaustive over a 15-symbol alphabet up to length 5 (quick) / 6 (thorough), grammar members around the int64 boundary, near misses; writers: boundary and random int64 units × exponents 0-18. non-trivial = pattern member or writer case; distinct by text / (units,exp)")
	c.R.Assume("accepted language = pattern published in data/schemas/num/*.json ∩ units fit int64; percentages additionally accept the documented factor form (amount pattern) and, for the string readers, the empty text (tested behaviour)")
	amtRe, err1 := loadPattern("amount.json", "Amount")
	pctRe, err2 := loadPattern("percentage.json", "Percentage")
	if err1 != nil || err2 != nil {
		c.R.Inconclusive(fmt.Sprintf("published-pattern-unreadable:%v:%v", err1, err2))
		return
	}
	c.R.Set("published_patterns", []string{amtRe.String(), pctRe.String()})

	alphabet := []string{"0", "1", "9", "-", "+", ".", "%", "e", "E", " ", ",", "_", "\"", "٣", "n"}
	maxLen := c.N(5, 6)
	// (1) exhaustive strings: partition by the first two symbols
	A := len(alphabet)
	c.Parallel(A*A+1, func(i int) {
		k := &c06{c: c, amtRe: amtRe, pctRe: pctRe, local: map[string]int64{}}
		var n, d int64
		visit := func(s string) {
			n++
			if k.checkString(s) {
				d++
			}
		}
		if i == A*A {
			visit("")
			for _, a := range alphabet {
				visit(a)
			}
		} else {
			prefix := alphabet[i/A] + alphabet[i%A]
			var rec func(s string, l int)
			rec = func(s string, l int) {
				visit(s)
				if l == maxLen {
					return
				}
				for _, a := range alphabet {
					rec(s+a, l+1)
				}
			}
			rec(prefix, 2)
		}
		c.R.Cases(n, d)
		k.flush()
	})
	c.R.Set("exhaustive_strings", fmt.Sprintf("all strings over %q of length 0-%d", strings.Join(alphabet, ""), maxLen))

	// (2) grammar members and near misses around the 64-bit boundary
	fixed := []string{
		"null", "nul", "NaN", "Inf", "0x10", "1e5", "1E5", "1e-5", "1.5e3", "+1", "+1.5", "--1", "-+1", "1.+5", "1.-5", "-1.-5", "1.", ".5", "-.5", "-", ".", "1..2", "1.2.3",
		" 1", "1 ", "1,000", "1_000", "1.000,5", "٣", "١٢٣", "１２３", "1\n", "\n1", "1\t", "0", "-0", "00", "007", "-007.50", "0.0", "-0.00", "0.000000000000000000",
		"9223372036854775807", "9223372036854775808", "-9223372036854775807", "-9223372036854775808", "-9223372036854775809",
		"922337203685477580.7", "922337203685477580.8", "-922337203685477580.8", "-922337203685477580.9", "9223372036854775807.0", "9223372036854775807.9",
		"99999999999.99999999999", "18446744073709551616", "18446744073709551617.5", "1.0000000000000000000", "0.9223372036854775807", "0.9223372036854775808",
		"123456789012345678901234567890", "0.00000000000000000001", "1.00000000000000000001", "92233720368547758.07", "92233720368547758.08",
		"16%", "16.0%", "-16.0%", "0.160", "16.%", "%", "-%", "16%%", "1 6%", "16 %", "+16%", "16.0e1%", "٣%", "0%", "0.0%", "100%", "92233720368547758.07%", "92233720368547758.08%", "9223372036854775807%", "922337203685477580%",
	}
	// zero-padded, fixed-width texts: leading zeros carry no value, so these fit
	for _, pad := range []int{1, 17, 18, 19, 20, 21, 30, 60} {
		z := strings.Repeat("0", pad)
		fixed = append(fixed, z+"12.50", "-"+z+"12.50", z+"9223372036854775807", z+"9223372036854775808", "-"+z+"9223372036854775808", z+"0", z+".5", z+"16.0%", "-"+z+"16%", "1."+z+"1", "0."+z+"1", "0."+z, z+"1."+z)
	}
	rng := c.Rand(7)
	for i := 0; i < c.N(20000, 400000); i++ {
		il := 1 + rng.IntN(22)
		fl := rng.IntN(22)
		var b strings.Builder
		if rng.IntN(2) == 0 {
			b.WriteByte('-')
		}
		// bias toward the int64 boundary digits
		base := "9223372036854775807"
		for j := 0; j < il; j++ {
			if rng.IntN(3) > 0 && j < len(base) {
				b.WriteByte(base[j])
			} else {
				b.WriteByte(byte('0' + rng.IntN(10)))
			}
		}
		if fl > 0 {
			b.WriteByte('.')
			for j := 0; j < fl; j++ {
				if rng.IntN(3) > 0 && il+j < len(base) {
					b.WriteByte(base[il+j])
				} else {
					b.WriteByte(byte('0' + rng.IntN(10)))
				}
			}
		}
		if rng.IntN(4) == 0 {
			b.WriteByte('%')
		}
		fixed = append(fixed, b.String())
	}
	chunks := 32
	c.Parallel(chunks, func(i int) {
		k := &c06{c: c, amtRe: amtRe, pctRe: pctRe, local: map[string]int64{}}
		for j := i; j < len(fixed); j += chunks {
			nt := k.checkString(fixed[j])
			c.R.Case(nt, ev.Hash("s", fixed[j]))
		}
		k.flush()
	})
	for _, s := range fixed[:6] {
		c.R.Sample(map[string]any{"input": s, "amount_pattern_member": amtRe.MatchString(s), "percentage_pattern_member": pctRe.MatchString(s)})
	}

	// (3) writers
	var vals []int64
	for _, v := range []int64{0, 1, 9, 10, 99, 100, 101, 12345, math.MaxInt64, math.MaxInt64 - 1, math.MinInt64 + 1, math.MinInt64} {
		vals = append(vals, v, -v)
	}
	p := int64(1)
	for kx := 0; kx < 18; kx++ {
		p *= 10
		vals = append(vals, p, -p, p+1, -(p + 1), p-1, -(p - 1), p/2, -(p / 2))
	}
	for i := 0; i < c.N(20000, 1000000); i++ {
		v := int64(rng.Uint64())
		if sh := rng.IntN(64); sh > 0 {
			v >>= uint(sh)
		}
		vals = append(vals, v)
	}
	c.Parallel(chunks, func(i int) {
		k := &c06{c: c, amtRe: amtRe, pctRe: pctRe, local: map[string]int64{}}
		for j := i; j < len(vals); j += chunks {
			for e := uint32(0); e <= 18; e++ {
				k.checkWrite(vals[j], e)
				k.checkWritePct(vals[j], e)
				c.R.Case(true, ev.Hash("w", fmt.Sprint(vals[j]), fmt.Sprint(e)))
			}
			// more decimals than 10^e fits in 64 bits: the units themselves still fit
			for e := uint32(19); e <= 26; e++ {
				k.checkWrite(vals[j], e)
				c.R.Case(true, ev.Hash("w", fmt.Sprint(vals[j]), fmt.Sprint(e)))
			}
		}
		k.flush()
	})
	// (4) the caller owns what a writer returns: scribbling over a returned text,
	// up to its capacity, must not change what is written afterwards
	{
		type wv struct {
			v int64
			e uint32
		}
		var cases []wv
		for v := int64(-120); v <= 1200; v++ {
			for e := uint32(0); e <= 3; e++ {
				cases = append(cases, wv{v, e})
			}
		}
		scribble := func(b []byte) {
			b = b[:cap(b)]
			for i := range b {
				b[i] = 'X'
			}
		}
		for _, cs := range cases {
			if b, err := num.MakeAmount(cs.v, cs.e).MarshalText(); err == nil {
				scribble(b)
				_ = append(b[:0], "ZZZZZZZZZZZZZZZZ"...)
			}
			if b, err := num.MakePercentage(cs.v, cs.e).MarshalText(); err == nil {
				scribble(b)
			}
		}
		for _, cs := range cases {
			want := dec.New(cs.v, int(cs.e)).String()
			a := num.MakeAmount(cs.v, cs.e)
			b, _ := a.MarshalText()
			j, _ := json.Marshal(a)
			c.R.Cases(1, 1)
			if string(b) != want || string(j) != `"`+want+`"` || a.String() != want {
				c.R.Fail("writes:returned-text-shared", fmt.Sprintf("after earlier results of the writers were overwritten by their caller, units=%d exp=%d is written %q / %s / %q (exact %q)", cs.v, cs.e, b, j, a.String(), want), map[string]any{"units": cs.v, "exp": cs.e})
				break
			}
			pt := num.MakePercentage(cs.v, cs.e)
			pb, _ := pt.MarshalText()
			if string(pb) != pt.String() {
				c.R.Fail("writes:returned-text-shared:pct", fmt.Sprintf("Percentage units=%d exp=%d: MarshalText %q vs String %q after earlier results were overwritten", cs.v, cs.e, pb, pt.String()), map[string]any{"units": cs.v, "exp": cs.e})
				break
			}
		}
		c.R.Count("writer_results_overwritten_by_caller", int64(2*len(cases)))
	}
	c.R.Sample(map[string]any{"write": "units=-5 exp=3", "text": num.MakeAmount(-5, 3).String(), "percentage_text": num.MakePercentage(-5, 3).String()})
	c.Require("reads:json-quoted", "writes:MarshalText", "writer_results_overwritten_by_caller")
}
