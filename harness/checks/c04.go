package checks

import (
	"bufio"
	"bytes"
	"crypto/sha256"
	"encoding/hex"
	"encoding/json"
	"fmt"
	"os"
	"os/exec"
	"path/filepath"
	"sort"
	"strings"
	"time"

	"github.com/invopop/gobl"
	"github.com/invopop/gobl/cbc"
	"github.com/invopop/gobl/dsig"
	"github.com/invopop/gobl/head"
	"github.com/invopop/gobl/l10n"
	"github.com/invopop/gobl/org"
	"github.com/invopop/gobl/tax"

	"verif/internal/corpus"
	"verif/internal/ev"
	"verif/internal/gen"
	"verif/internal/gx"
	"verif/internal/jmut"
	"verif/internal/walk"
)

// C04 — calculation is a deterministic fixpoint and serialisation is lossless.

func init() {
	Register("C04", runC04)
	Children["C04"] = childC04
}

// c04pipeline: calc → marshal → (parse → calc → marshal)×3. Returns the first
// serialisation and the first differing later one.
func c04pipeline(in []byte, isEnvelope bool) (b1 []byte, diffAt int, bN []byte, err error, pan any) {
	pan, _ = Safely(func() {
		var env *gobl.Envelope
		if isEnvelope {
			env, err = gx.ParseEnvelope(in)
			if err == nil {
				err = env.Calculate()
			}
		} else {
			env, err = gx.EnvelopDoc(in)
		}
		if err != nil {
			return
		}
		b1, err = json.Marshal(env)
		if err != nil {
			return
		}
		cur := b1
		for i := 2; i <= 4; i++ {
			var e2 *gobl.Envelope
			e2, err = gx.ParseEnvelope(cur)
			if err != nil {
				err = fmt.Errorf("re-parse of own output: %w", err)
				return
			}
			if err = e2.Calculate(); err != nil {
				err = fmt.Errorf("re-calculation of own output: %w", err)
				return
			}
			var b []byte
			b, err = json.Marshal(e2)
			if err != nil {
				return
			}
			if !bytes.Equal(b, b1) {
				diffAt, bN = i, b
				return
			}
			cur = b
		}
	})
	return
}

// firstJSONDiff names the path class of the first differing leaf.
func firstJSONDiff(a, b []byte) (class, detail string) {
	x, e1 := jmut.Parse(a)
	y, e2 := jmut.Parse(b)
	if e1 != nil || e2 != nil {
		return "unparseable", ""
	}
	var found jmut.Path
	var det string
	if xd, yd := x.Get("doc"), y.Get("doc"); xd != nil && yd != nil && x.Get("head") != nil {
		// report differences of the document before those of the header digest
		if cls, d := firstJSONDiff(xd.Bytes(), yd.Bytes()); cls != "member-order-or-format" {
			return "doc." + cls, "doc." + d
		}
	}
	x.Walk(func(p jmut.Path, n *jmut.Node) {
		if found != nil {
			return
		}
		m := y.At(p)
		if m == nil {
			found, det = p, "missing after recalculation"
			return
		}
		if n.K != m.K {
			found, det = p, "type changed"
			return
		}
		switch n.K {
		case jmut.Str:
			if n.S != m.S {
				found, det = p, fmt.Sprintf("%q → %q", n.S, m.S)
			}
		case jmut.Num:
			if n.Num != m.Num {
				found, det = p, n.Num+" → "+m.Num
			}
		case jmut.Bool:
			if n.B != m.B {
				found, det = p, "bool flipped"
			}
		case jmut.Arr:
			if len(n.A) != len(m.A) {
				found, det = p, fmt.Sprintf("%d → %d elements", len(n.A), len(m.A))
			}
		case jmut.Obj:
			if len(n.M) != len(m.M) {
				found, det = p, fmt.Sprintf("%d → %d members", len(n.M), len(m.M))
			}
		}
	})
	if found == nil {
		return "member-order-or-format", ""
	}
	return found.Class(), found.String() + ": " + det
}

type c04input struct {
	Origin   string          `json:"origin"`
	Envelope bool            `json:"envelope"`
	Data     json.RawMessage `json:"data"`
	Class    string          `json:"class"`
}

func c04targeted() []c04input {
	// mechanism-targeted documents built on an ES invoice
	b, err := os.ReadFile(filepath.Join(ev.Repo(), "examples/es/out/invoice-es-es.json"))
	if err != nil {
		return nil
	}
	doc, _ := gx.DocJSON(b)
	var out []c04input
	mk := func(class string, fn func(n *jmut.Node)) {
		n, err := jmut.Parse(doc)
		if err != nil {
			return
		}
		n.Del("totals")
		fn(n)
		out = append(out, c04input{Origin: "targeted:" + class, Data: n.Bytes(), Class: class})
	}
	mk("code-with-separators", func(n *jmut.Node) { n.Set("code", jmut.S(" inv / 2024 - 001 ")); n.Set("series", jmut.S("a b")) })
	mk("code-lowercase-dots", func(n *jmut.Node) { n.Set("code", jmut.S("fact.2024..0001")) })
	mk("identity-with-prefix", func(n *jmut.Node) {
		n.Get("supplier").Get("tax_id").Set("code", jmut.S("es-b98602642"))
		n.Get("customer").Get("tax_id").Set("code", jmut.S("ES 54387763-P"))
	})
	mk("address-padding", func(n *jmut.Node) {
		n.Get("supplier").Set("addresses", jmut.Ar(jmut.O(
			jmut.Member{Key: "num", Val: jmut.S(" 42 ")}, jmut.Member{Key: "street", Val: jmut.S("  Calle  Pradillo ")},
			jmut.Member{Key: "locality", Val: jmut.S(" Madrid")}, jmut.Member{Key: "code", Val: jmut.S(" 28002 ")}, jmut.Member{Key: "country", Val: jmut.S("ES")})))
	})
	mk("scenario-notes-tag", func(n *jmut.Node) { n.Set("$tags", jmut.Ar(jmut.S("reverse-charge"))) })
	mk("scenario-notes-duplicated", func(n *jmut.Node) {
		n.Set("$tags", jmut.Ar(jmut.S("reverse-charge")))
		note := jmut.O(jmut.Member{Key: "key", Val: jmut.S("legal")}, jmut.Member{Key: "src", Val: jmut.S("reverse-charge")}, jmut.Member{Key: "text", Val: jmut.S("Reverse Charge / Inversión del sujeto pasivo.")})
		n.Set("notes", jmut.Ar(note, note.Clone(), jmut.O(jmut.Member{Key: "text", Val: jmut.S("own note")})))
	})
	mk("preceding-with-tax-surcharge", func(n *jmut.Node) {
		n.Set("type", jmut.S("credit-note"))
		n.Set("preceding", jmut.Ar(jmut.O(
			jmut.Member{Key: "type", Val: jmut.S("standard")}, jmut.Member{Key: "code", Val: jmut.S("SAMPLE-000")}, jmut.Member{Key: "issue_date", Val: jmut.S("2024-01-01")},
			jmut.Member{Key: "tax", Val: jmut.O(jmut.Member{Key: "categories", Val: jmut.Ar(jmut.O(
				jmut.Member{Key: "code", Val: jmut.S("VAT")},
				jmut.Member{Key: "rates", Val: jmut.Ar(jmut.O(jmut.Member{Key: "base", Val: jmut.S("100.00")}, jmut.Member{Key: "percent", Val: jmut.S("21.0%")},
					jmut.Member{Key: "surcharge", Val: jmut.O(jmut.Member{Key: "percent", Val: jmut.S("5.2%")}, jmut.Member{Key: "amount", Val: jmut.S("0.00")})}, jmut.Member{Key: "amount", Val: jmut.S("0.00")}))},
				jmut.Member{Key: "amount", Val: jmut.S("0.00")})),
			}, jmut.Member{Key: "sum", Val: jmut.S("0.00")})})))
	})
	mk("empty-discount-rows", func(n *jmut.Node) {
		n.Get("lines").A[0].Set("discounts", jmut.Ar(jmut.O(jmut.Member{Key: "percent", Val: jmut.S("0%")}), jmut.O(jmut.Member{Key: "percent", Val: jmut.S("10%")}, jmut.Member{Key: "reason", Val: jmut.S("x")})))
	})
	// a rounding adjustment written with more decimals than the currency, on
	// totals whose fraction lies near a rounding boundary
	for _, price := range []string{"10.01", "10.00", "33.33", "0.99", "19.995"} {
		for _, rnd := range []string{"0.004", "-0.004", "0.0051", "-0.0049", "0.00001", "0.015"} {
			price, rnd := price, rnd
			mk("preset-rounding-extra-decimals", func(n *jmut.Node) {
				l := n.Get("lines").A[0]
				l.Get("item").Set("price", jmut.S(price))
				l.Set("quantity", jmut.S("1"))
				l.Del("discounts")
				n.Get("lines").A = n.Get("lines").A[:1]
				n.Set("totals", jmut.O(jmut.Member{Key: "rounding", Val: jmut.S(rnd)}))
			})
		}
	}
	mk("no-currency-no-type", func(n *jmut.Node) { n.Del("currency"); n.Del("type") })
	mk("unknown-addon", func(n *jmut.Node) { n.Set("$addons", jmut.Ar(jmut.S("zz-unknown-v1"))) })
	mk("payment-advances-percent", func(n *jmut.Node) {
		n.Set("payment", jmut.O(jmut.Member{Key: "advances", Val: jmut.Ar(jmut.O(jmut.Member{Key: "description", Val: jmut.S("a")}, jmut.Member{Key: "percent", Val: jmut.S("33.3%")}))},
			jmut.Member{Key: "terms", Val: jmut.O(jmut.Member{Key: "key", Val: jmut.S("due-date")}, jmut.Member{Key: "due_dates", Val: jmut.Ar(jmut.O(jmut.Member{Key: "date", Val: jmut.S("2024-09-01")}, jmut.Member{Key: "percent", Val: jmut.S("50%")}))})}))
	})
	return out
}

func runC04(c *Ctx) {
	c.R.Rule("corpus envelopes of every registered type (invoice, order, delivery, payment, party, message, tax identity) + synthesised documents of the C01 grammar (fixed amounts at currency precision; a separate class with excess decimals) + mechanism-targeted documents (codes with separators, identities with prefixes, padded addresses, scenario notes incl. duplicates, preceding rows with tax summaries and surcharges, empty discount rows) + every regime × addon tag on an example; pipeline calc→marshal→(parse→calc→marshal)×3 compared byte for byte, repeated in 3 fresh child processes; parse/marshal identity; validate/digest/verify/extract leave the envelope bytes and deep fingerprint unchanged; normalisers idempotent. non-trivial = first calculation changed the input; distinct by input")
	c.R.Assume("identifiers and dates are fixed in every input (uuid, issue_date present) so that outputs are comparable across processes")
	w := getWorld()
	var inputs []c04input
	for _, it := range corpus.Golden() {
		inputs = append(inputs, c04input{Origin: it.Rel, Envelope: true, Data: it.Data, Class: "corpus:" + it.Type})
		// the bare source document recalculated from scratch (totals removed)
		if doc, err := gx.DocJSON(it.Data); err == nil {
			if n, err := jmut.Parse(doc); err == nil {
				n.Del("totals")
				inputs = append(inputs, c04input{Origin: it.Rel + "#doc-without-totals", Data: n.Bytes(), Class: "corpus-doc:" + it.Type})
			}
		}
	}
	// the example *inputs* as shipped (they still carry legacy forms that calculation
	// migrates), each also with its first line repeated under every other rate key of
	// its tax category, before and after the original lines
	for _, src := range corpus.Sources() {
		inputs = append(inputs, c04input{Origin: src.Rel, Data: src.JSON, Class: "source"})
		n, err := jmut.Parse(src.JSON)
		if err != nil || n.Get("lines") == nil || len(n.Get("lines").A) == 0 {
			continue
		}
		first := n.Get("lines").A[0]
		tx := first.Get("taxes")
		if first.K != jmut.Obj || tx == nil || len(tx.A) == 0 || tx.A[0].K != jmut.Obj {
			continue
		}
		regime := str(n, "$regime")
		if regime == "" {
			regime = str(n, "supplier", "tax_id", "country")
		}
		reg := w.defs.Regimes[regime]
		if reg == nil {
			continue
		}
		cat := reg.CategoryDef(str(tx.A[0], "cat"))
		if cat == nil {
			continue
		}
		for ri, r := range cat.Rates {
			if r.Key == str(tx.A[0], "rate") {
				continue
			}
			for _, after := range []bool{true, false} {
				d := n.Clone()
				cp := d.Get("lines").A[0].Clone()
				cp.Get("taxes").A[0].Set("rate", jmut.S(r.Key))
				cp.Get("taxes").A[0].Del("percent")
				cp.Del("i")
				if after {
					d.Get("lines").A = append(d.Get("lines").A, cp)
				} else {
					d.Get("lines").A = append([]*jmut.Node{cp}, d.Get("lines").A...)
				}
				inputs = append(inputs, c04input{Origin: fmt.Sprintf("%s#line-with-rate-%d-%v", src.Rel, ri, after), Data: d.Bytes(), Class: "source-variant"})
			}
		}
	}
	inputs = append(inputs, c04targeted()...)
	// field-level variations of corpus documents (kept when they still calculate)
	{
		pools := c11pools()
		vr := c.Rand(77)
		for _, it := range corpus.Golden() {
			docB, err := gx.DocJSON(it.Data)
			if err != nil {
				continue
			}
			doc, err := jmut.Parse(docB)
			if err != nil {
				continue
			}
			for _, v := range c11variants(doc, pools, vr.IntN, c.N(12, 300)) {
				inputs = append(inputs, c04input{Origin: it.Rel + "#field-variant", Data: v.Bytes(), Class: "corpus-variant"})
			}
		}
	}
	// regime × addon: the ES example re-homed to every regime with every addon
	if b, err := os.ReadFile(filepath.Join(ev.Repo(), "examples/es/out/invoice-es-es.json")); err == nil {
		doc, _ := gx.DocJSON(b)
		var regs, addons []string
		for r := range w.defs.Regimes {
			regs = append(regs, r)
		}
		for a := range w.defs.Addons {
			addons = append(addons, a)
		}
		for _, r := range regs {
			for _, a := range append(addons, "") {
				n, _ := jmut.Parse(doc)
				n.Del("totals")
				n.Del("$regime")
				n.Get("supplier").Get("tax_id").Set("country", jmut.S(r))
				n.Get("supplier").Get("tax_id").Del("code")
				n.Del("customer")
				if a != "" {
					n.Set("$addons", jmut.Ar(jmut.S(a)))
				} else {
					n.Del("$addons")
				}
				n.Set("currency", jmut.S(w.defs.Regimes[r].Currency))
				for _, l := range n.Get("lines").A {
					l.Del("taxes")
				}
				inputs = append(inputs, c04input{Origin: "regime-addon:" + r + ":" + a, Data: n.Bytes(), Class: "regime-addon"})
				// the same with a first line whose combo names a rate key and a country: the
				// document's own (calculation drops it again) and a foreign one
				var combo *jmut.Node
				for _, cat := range w.defs.Regimes[r].Categories {
					if !cat.Retained && len(cat.Rates) > 0 {
						combo = jmut.O(jmut.Member{Key: "cat", Val: jmut.S(cat.Code)}, jmut.Member{Key: "rate", Val: jmut.S(cat.Rates[0].Key)})
						break
					}
				}
				if combo != nil {
					for _, cc := range []string{r, "FR", "PT"} {
						n2 := n.Clone()
						cb := combo.Clone()
						cb.Set("country", jmut.S(cc))
						n2.Get("lines").A[0].Set("taxes", jmut.Ar(cb))
						inputs = append(inputs, c04input{Origin: "regime-addon-combo-country:" + r + ":" + a + ":" + cc, Data: n2.Bytes(), Class: "regime-addon"})
					}
				}
			}
		}
	}
	// addon lists: every ordered pair of addons, an addon named twice, and the pair
	// with each third one in front — what calculation adds to the list (required
	// addons) must already be complete and stable after the first pass (§10.10)
	if b, err := os.ReadFile(filepath.Join(ev.Repo(), "examples/es/out/invoice-es-es.json")); err == nil {
		doc, _ := gx.DocJSON(b)
		var addons []string
		for a := range w.defs.Addons {
			addons = append(addons, a)
		}
		sort.Strings(addons)
		base, _ := jmut.Parse(doc)
		base.Del("totals")
		base.Del("customer")
		for _, l := range base.Get("lines").A {
			l.Del("taxes")
		}
		add := func(list ...string) {
			n := base.Clone()
			ar := jmut.Ar()
			for _, a := range list {
				ar.A = append(ar.A, jmut.S(a))
			}
			n.Set("$addons", ar)
			inputs = append(inputs, c04input{Origin: "addon-list:" + strings.Join(list, "+"), Data: n.Bytes(), Class: "addon-list"})
		}
		for i, a := range addons {
			add(a, a)
			for j, b2 := range addons {
				if i == j {
					continue
				}
				add(a, b2)
				if i < j {
					third := addons[(i+j)%len(addons)]
					if third != a && third != b2 {
						add(third, a, b2)
						add(a, b2, third)
					}
				}
			}
		}
	}
	// regime × tag × customer country: every tag a regime (or an addon) offers for
	// invoices, with a customer at home, abroad under another regime, and abroad
	// without one; the first line names a rate of the regime's first category by key
	if b, err := os.ReadFile(filepath.Join(ev.Repo(), "examples/es/out/invoice-es-es.json")); err == nil {
		doc, _ := gx.DocJSON(b)
		var regs []string
		for r := range w.defs.Regimes {
			regs = append(regs, r)
		}
		sort.Strings(regs)
		for _, r := range regs {
			reg := w.defs.Regimes[r]
			tags := map[string]bool{}
			for _, ts := range reg.Tags {
				if ts.Schema == "bill/invoice" {
					for _, k := range ts.List {
						tags[k.Key] = true
					}
				}
			}
			var tl []string
			for t := range tags {
				tl = append(tl, t)
			}
			sort.Strings(tl)
			var combo *jmut.Node
			for _, cat := range reg.Categories {
				if cat.Retained || len(cat.Rates) == 0 {
					continue
				}
				combo = jmut.O(jmut.Member{Key: "cat", Val: jmut.S(cat.Code)}, jmut.Member{Key: "rate", Val: jmut.S(cat.Rates[0].Key)})
				break
			}
			for _, tag := range tl {
				for _, cc := range []string{r, "ES", "PT", "JP"} {
					n, _ := jmut.Parse(doc)
					n.Del("totals")
					n.Del("$regime")
					n.Del("$addons")
					n.Get("supplier").Get("tax_id").Set("country", jmut.S(r))
					n.Get("supplier").Get("tax_id").Del("code")
					n.Set("customer", jmut.O(jmut.Member{Key: "name", Val: jmut.S("Customer")}, jmut.Member{Key: "tax_id", Val: jmut.O(jmut.Member{Key: "country", Val: jmut.S(cc)})}))
					n.Set("currency", jmut.S(reg.Currency))
					n.Set("$tags", jmut.Ar(jmut.S(tag)))
					for li, l := range n.Get("lines").A {
						l.Del("taxes")
						if li == 0 && combo != nil {
							l.Set("taxes", jmut.Ar(combo.Clone()))
						}
					}
					inputs = append(inputs, c04input{Origin: "regime-tag-customer:" + r + ":" + tag + ":" + cc, Data: n.Bytes(), Class: "regime-tag"})
				}
			}
		}
	}
	nGen := c.N(3000, 150000)
	rng := c.Rand(0)
	g := gen.New(rng, w.defs)
	for i := 0; i < nGen; i++ {
		p := gen.Profile{Schema: []string{"bill/invoice", "bill/invoice", "bill/order", "bill/delivery"}[rng.IntN(4)], MaxLines: 8, FixedAtCur: true, Preset: true}
		class := "generated"
		if i%10 == 9 {
			p.FixedAtCur = false
			class = "generated:excess-decimal-fixed-amounts"
		}
		d := g.Document(p)
		if class != "generated" && !d.Features["fixed-amount-odd-precision"] {
			class = "generated"
		}
		inputs = append(inputs, c04input{Origin: class, Data: d.JSON, Class: class})
	}
	// payments whose lines carry document tax summaries
	{
		prng := c.Rand(31)
		for i := 0; i < c.N(600, 20000); i++ {
			inputs = append(inputs, c04input{Origin: "generated-payment", Data: genPayment(prng, i), Class: "generated-payment"})
		}
	}
	c.R.Set("inputs", len(inputs))

	hashes := make([]string, len(inputs))
	c.Parallel(len(inputs), func(i int) {
		in := inputs[i]
		wit := func() map[string]any { return map[string]any{"origin": in.Origin, "class": in.Class, "input": in.Data} }
		b1, diffAt, bN, err, pan := c04pipeline(in.Data, in.Envelope)
		if pan != nil {
			c.R.Count("panics", 1)
			c.R.Case(false, ev.HashBytes(in.Data))
			return
		}
		if err != nil {
			if strings.Contains(err.Error(), "of own output") {
				c.R.Fail("own-output-rejected:"+in.Class, fmt.Sprintf("%s: %v", in.Origin, err), wit())
			} else {
				c.R.Count("calculation_refused:"+strings.SplitN(in.Class, ":", 2)[0], 1)
			}
			c.R.Case(false, ev.HashBytes(in.Data))
			return
		}
		hashes[i] = c04hash(b1)
		c.R.Count("pipelines:"+strings.SplitN(in.Class, ":", 2)[0], 1)
		if diffAt > 0 {
			cls, det := firstJSONDiff(b1, bN)
			sig := "nonfixpoint:" + cls
			if strings.HasSuffix(in.Class, "excess-decimal-fixed-amounts") {
				sig = "nonfixpoint:excess-decimal-fixed-amounts"
			}
			c.R.Fail(sig, fmt.Sprintf("%s: calculation %d of the serialised result differs from the first: %s", in.Origin, diffAt, det), wit())
		}
		// non-trivial: the first calculation changed something
		var inDoc []byte = in.Data
		if in.Envelope {
			inDoc, _ = gx.DocJSON(in.Data)
		}
		outDoc, _ := gx.DocJSON(b1)
		x, _ := jmut.Parse(inDoc)
		y, _ := jmut.Parse(outDoc)
		c.R.Case(x != nil && y != nil && !jmut.Equal(x, y), ev.HashBytes(in.Data))

		// parse/marshal identity on the serialised envelope and on the bare document
		env, perr := gx.ParseEnvelope(b1)
		if perr != nil {
			c.R.Fail("roundtrip:envelope-unparseable", perr.Error(), wit())
			return
		}
		if m, _ := json.Marshal(env); !bytes.Equal(m, b1) {
			cls, det := firstJSONDiff(b1, m)
			c.R.Fail("roundtrip:envelope:"+cls, fmt.Sprintf("%s: marshal(parse(x)) ≠ x: %s", in.Origin, det), wit())
		}
		if od, err := gx.DocJSON(b1); err == nil {
			if e2, err := gx.EnvelopDocNoCalc(od); err == nil {
				if m, _ := json.Marshal(e2); !bytes.Equal(m, od) {
					cls, det := firstJSONDiff(od, m)
					c.R.Fail("roundtrip:document:"+cls, fmt.Sprintf("%s: marshal(parse(doc)) ≠ doc: %s", in.Origin, det), wit())
				}
			}
		}
		// golden files are written indented with tabs: the corpus file itself must be reproduced
		if in.Envelope {
			if e3, err := gx.ParseEnvelope(in.Data); err == nil {
				if m, _ := json.MarshalIndent(e3, "", "\t"); !bytes.Equal(bytes.TrimSpace(m), bytes.TrimSpace(in.Data)) {
					cls, det := firstJSONDiff(in.Data, m)
					c.R.Fail("roundtrip:golden-file:"+cls, fmt.Sprintf("%s: parse+marshal of the shipped file changes it: %s", in.Origin, det), wit())
				}
			}
		}
		// read-only operations leave the envelope alone: the calculated envelope, and
		// the same envelope signed and dressed (stamps, links, tags, meta; also with
		// null rows in the header lists, which parsing accepts)
		readOnly(c, in.Origin, env, wit)
		if i%3 == 0 {
			for _, dressed := range c04dressed(env) {
				readOnly(c, in.Origin+" (signed, "+dressed.name+")", dressed.env, wit)
			}
		}
		if i%401 == 0 {
			c.R.Sample(map[string]any{"origin": in.Origin, "class": in.Class, "sha256_of_calculated_envelope": hashes[i]})
		}
	})

	// normalisers are idempotent on generated strings
	c.Parallel(16, func(ci int) {
		r := c.Rand(uint64(500 + ci))
		alphabet := []rune("abzAZ09 ./-_:,#\t·ñÑ&+")
		for k := 0; k < c.N(2000, 60000)/16; k++ {
			n := 1 + r.IntN(14)
			rs := make([]rune, n)
			for j := range rs {
				rs[j] = alphabet[r.IntN(len(alphabet))]
			}
			s := string(rs)
			c1 := cbc.NormalizeCode(cbc.Code(s))
			c2 := cbc.NormalizeCode(c1)
			if c1 != c2 {
				c.R.Fail("normalizer:code-not-idempotent", fmt.Sprintf("NormalizeCode(%q)=%q, again %q", s, c1, c2), s)
			}
			id := &tax.Identity{Country: l10n.TaxCountryCode([]string{"ES", "FR", "DE", "IT", "PT", "NL", "GB", "MX", "ZZ"}[r.IntN(9)]), Code: cbc.Code(s)}
			Safely(func() {
				id.Normalize()
				a := id.Code
				if strings.HasPrefix(a.String(), string(id.Country)) {
					// a body that itself begins with the country letters cannot be told
					// from a prefixed code: inherent to prefix stripping, not judged
					c.R.Count("identity_bodies_starting_with_country_letters", 1)
					return
				}
				id.Normalize()
				if id.Code != a {
					c.R.Fail("normalizer:identity-not-idempotent", fmt.Sprintf("%s identity %q → %q → %q", id.Country, s, a, id.Code), s)
				}
			})
			ad := &org.Address{Street: s, Locality: " " + s + " ", Code: cbc.Code(s), Country: "ES"}
			Safely(func() {
				ad.Normalize(nil)
				a1, _ := json.Marshal(ad)
				ad.Normalize(nil)
				a2, _ := json.Marshal(ad)
				if !bytes.Equal(a1, a2) {
					c.R.Fail("normalizer:address-not-idempotent", fmt.Sprintf("%s then %s", a1, a2), s)
				}
			})
			c.R.Count("normaliser_strings", 1)
		}
	})

	// the same pipeline in three fresh processes: outputs must be identical
	tmp, err := os.MkdirTemp("", "verif-c04-")
	if err != nil {
		c.R.Inconclusive("tmp")
		return
	}
	defer os.RemoveAll(tmp)
	listFile := filepath.Join(tmp, "inputs.jsonl")
	f, _ := os.Create(listFile)
	bw := bufio.NewWriter(f)
	step := 1
	if len(inputs) > c.N(1500, 40000) {
		step = len(inputs) / c.N(1500, 40000)
	}
	var sel []int
	for i := 0; i < len(inputs); i += step {
		if hashes[i] == "" {
			continue
		}
		sel = append(sel, i)
		b, _ := json.Marshal(inputs[i])
		bw.Write(b)
		bw.WriteByte('\n')
	}
	bw.Flush()
	f.Close()
	self, _ := os.Executable()
	for run := 0; run < 3; run++ {
		outFile := filepath.Join(tmp, fmt.Sprintf("out-%d.txt", run))
		cmd := exec.Command(self, "child", "C04", listFile, outFile)
		cmd.Env = append(os.Environ(), fmt.Sprintf("GOMAXPROCS=%d", []int{1, 4, 16}[run]))
		var eb bytes.Buffer
		cmd.Stderr = &eb
		if err := runWithTimeout(cmd, 20*time.Minute); err != nil {
			c.R.Inconclusive(fmt.Sprintf("child-process-%d:%v:%s", run, err, trunc(eb.String())))
			return
		}
		ob, _ := os.ReadFile(outFile)
		lines := strings.Split(strings.TrimSpace(string(ob)), "\n")
		if len(lines) != len(sel) {
			c.R.Inconclusive(fmt.Sprintf("child-process-%d:lines=%d want %d", run, len(lines), len(sel)))
			return
		}
		for k, i := range sel {
			if lines[k] != hashes[i] {
				c.R.Fail("nondeterministic:across-processes", fmt.Sprintf("%s: calculated envelope differs between processes (%s vs %s)", inputs[i].Origin, hashes[i][:12], trunc(lines[k])), map[string]any{"origin": inputs[i].Origin, "input": inputs[i].Data})
			}
		}
		c.R.Count("cross_process_comparisons", int64(len(sel)))
	}
	c04cliRepeat(c, tmp)
	c.Require("pipelines:corpus", "pipelines:generated", "pipelines:generated-payment", "pipelines:source", "pipelines:regime-tag", "cross_process_comparisons", "readonly_ops_checked", "cli_repeated_builds")
}

// c04cliRepeat: the same `gobl build` command line, with values merged from
// several flags, files and a template, run many times in fresh processes must
// print the same document and digest every time.
func c04cliRepeat(c *Ctx, tmp string) {
	gbin := filepath.Join(ev.Root(), "bin", "gobl")
	if _, err := os.Stat(gbin); err != nil {
		c.R.Inconclusive("no-cli-binary")
		return
	}
	b, err := os.ReadFile(filepath.Join(ev.Repo(), "examples/es/out/invoice-es-es.json"))
	if err != nil {
		return
	}
	doc, _ := gx.DocJSON(b)
	docFile := filepath.Join(tmp, "cli-doc.json")
	envFile := filepath.Join(tmp, "cli-env.json")
	custFile := filepath.Join(tmp, "cli-customer.yaml")
	tplFile := filepath.Join(tmp, "cli-template.yaml")
	_ = os.WriteFile(docFile, doc, 0o644)
	_ = os.WriteFile(envFile, b, 0o644)
	_ = os.WriteFile(custFile, []byte("name: From File\ntax_id:\n  country: ES\n  code: B98602642\n"), 0o644)
	_ = os.WriteFile(tplFile, []byte("series: TPL\nnotes:\n  - key: general\n    text: from the template\nsupplier:\n  alias: Template Alias\n"), 0o644)
	cases := [][]string{
		{"build", "--set", "supplier={name: Whole, tax_id: {country: ES, code: B98602642}}", "--set", "supplier.name=Leaf", docFile},
		{"build", "--set", "supplier.name=Leaf", "--set", "supplier.alias=Alias", "--set", "supplier={name: Whole, tax_id: {country: ES, code: B98602642}}", "--set", "supplier.tax_id.code=A58818501", docFile},
		{"build", "--set", "doc.supplier={name: Whole, tax_id: {country: ES, code: B98602642}}", "--set", "doc.supplier.name=Leaf", "--set", "doc.series=S1", "--set", "doc={series: S2}", envFile},
		{"build", "--set-string", "series=0012", "--set", "series=13", "--set-file", "customer=" + custFile, "--set", "customer.name=From Flag", docFile},
		{"build", "-T", tplFile, "--set", "series=FLAG", "--set-string", "supplier.alias=Flag Alias", docFile},
		{"build", "--set", "a1.b=1", "--set", "a1.c=2", "--set", "a1={d: 3}", "--set", "meta={k1: v1}", "--set", "meta.k2=v2", "--set", "meta.k1=other", docFile},
		{"sign", "--set", "doc.supplier.name=Leaf", "--set", "doc.supplier={name: Whole, tax_id: {country: ES, code: B98602642}}", "-k", filepath.Join(tmp, "cli-key.jwk"), envFile},
	}
	if kb, err := json.Marshal(c04key); err == nil {
		_ = os.WriteFile(filepath.Join(tmp, "cli-key.jwk"), kb, 0o600)
	}
	const repeats = 32
	type res struct{ out string }
	for ci, args := range cases {
		outs := make([]string, repeats)
		c.Parallel(repeats, func(r int) {
			cmd := exec.Command(gbin, args...)
			var so, se bytes.Buffer
			cmd.Stdout, cmd.Stderr = &so, &se
			err := runWithTimeout(cmd, 60*time.Second)
			o := so.Bytes()
			if err != nil {
				outs[r] = "error:" + strings.TrimSpace(se.String())
				return
			}
			if n, perr := jmut.Parse(o); perr == nil && n.Get("doc") != nil {
				outs[r] = c04hash(o)
			} else {
				outs[r] = string(o)
			}
		})
		c.R.Count("cli_repeated_builds", repeats)
		c.R.Case(true, ev.Hash("cli-repeat", fmt.Sprint(ci)))
		distinct := map[string]int{}
		for _, o := range outs {
			distinct[o]++
		}
		if len(distinct) > 1 {
			var shown []string
			for o, n := range distinct {
				shown = append(shown, fmt.Sprintf("%d× %s", n, trunc(o)))
			}
			sort.Strings(shown)
			c.R.Fail("nondeterministic:cli-build", fmt.Sprintf("`gobl %s` printed %d different results in %d identical runs: %s", strings.Join(args, " "), len(distinct), repeats, strings.Join(shown, " | ")), map[string]any{"args": args})
		}
	}
}

var c04key = dsig.NewES256Key()

// c04hash fingerprints what is determined by the input: the calculated
// document and its digest (a fresh envelope gets a random header uuid).
func c04hash(env []byte) string {
	n, err := jmut.Parse(env)
	if err != nil {
		return "unparseable"
	}
	h := sha256.New()
	if d := n.Get("doc"); d != nil {
		h.Write(d.Bytes())
	}
	if hd := n.Get("head"); hd != nil && hd.Get("dig") != nil {
		h.Write(hd.Get("dig").Bytes())
	}
	return hex.EncodeToString(h.Sum(nil))
}

// childC04 recomputes the first serialisation of each input in a fresh process.
func childC04(args []string) int {
	if len(args) != 2 {
		return 2
	}
	f, err := os.Open(args[0])
	if err != nil {
		return 2
	}
	defer f.Close()
	out, err := os.Create(args[1])
	if err != nil {
		return 2
	}
	defer out.Close()
	sc := bufio.NewScanner(f)
	sc.Buffer(make([]byte, 1<<20), 256<<20)
	for sc.Scan() {
		var in c04input
		if json.Unmarshal(sc.Bytes(), &in) != nil {
			fmt.Fprintln(out, "bad-input")
			continue
		}
		b1, _, _, err, pan := c04pipeline(in.Data, in.Envelope)
		if err != nil || pan != nil {
			fmt.Fprintln(out, "error")
			continue
		}
		fmt.Fprintln(out, c04hash(b1))
	}
	return 0
}

type c04dress struct {
	name string
	env  *gobl.Envelope
}

// c04dressed signs a copy of the envelope, fills its header and returns it in
// several serialised-and-reparsed forms.
func c04dressed(env *gobl.Envelope) []c04dress {
	b, err := json.Marshal(env)
	if err != nil {
		return nil
	}
	cp, err := gx.ParseEnvelope(b)
	if err != nil {
		return nil
	}
	var serr error
	if p, _ := Safely(func() { serr = cp.Sign(c04key) }); p != nil || serr != nil {
		return nil
	}
	cp.Head.AddStamp(&head.Stamp{Provider: "verif-a", Value: "A"})
	cp.Head.AddStamp(&head.Stamp{Provider: "verif-b", Value: "B"})
	cp.Head.AddStamp(&head.Stamp{Provider: "verif-c", Value: "C"})
	cp.Head.AddLink(&head.Link{Key: "one", URL: "https://example.com/1"})
	cp.Head.AddLink(&head.Link{Key: "two", URL: "https://example.com/2"})
	cp.Head.Tags = []string{"t1", "t2"}
	cp.Head.Meta = cbc.Meta{"k": "v"}
	sb, err := json.Marshal(cp)
	if err != nil {
		return nil
	}
	var out []c04dress
	add := func(name string, edit func(n *jmut.Node)) {
		n, err := jmut.Parse(sb)
		if err != nil {
			return
		}
		if edit != nil {
			edit(n)
		}
		if e, err := gx.ParseEnvelope(n.Bytes()); err == nil {
			out = append(out, c04dress{name, e})
		}
	}
	insertNull := func(list *jmut.Node, at int) {
		if list == nil || list.K != jmut.Arr || at > len(list.A) {
			return
		}
		list.A = append(list.A[:at], append([]*jmut.Node{jmut.Nl()}, list.A[at:]...)...)
	}
	add("header filled", nil)
	add("null stamp row inside", func(n *jmut.Node) { insertNull(n.Get("head").Get("stamps"), 1) })
	add("null stamp row first", func(n *jmut.Node) { insertNull(n.Get("head").Get("stamps"), 0) })
	add("null link row inside", func(n *jmut.Node) { insertNull(n.Get("head").Get("links"), 1) })
	add("stamps reversed", func(n *jmut.Node) {
		if st := n.Get("head").Get("stamps"); st != nil && len(st.A) == 3 {
			st.A[0], st.A[2] = st.A[2], st.A[0]
		}
	})
	return out
}

func readOnly(c *Ctx, origin string, env *gobl.Envelope, wit func() map[string]any) {
	before, _ := json.Marshal(env)
	fpB, _ := walk.Fingerprint(env)
	ops := map[string]func(){
		"validate": func() { _ = env.Validate() },
		"digest":   func() { _, _ = env.Digest() },
		"verify":   func() { _ = env.Verify(); _ = env.Verify(c04key.Public()) },
		"extract":  func() { _ = env.Extract() },
		"signed":   func() { _ = env.Signed() },
		"options":  func() { _, _ = env.CorrectionOptionsSchema() },
	}
	for name, op := range ops {
		if p, _ := Safely(op); p != nil {
			c.R.Count("panics_in_readonly_ops", 1)
			continue
		}
		after, _ := json.Marshal(env)
		fpA, _ := walk.Fingerprint(env)
		if !bytes.Equal(before, after) || fpA != fpB {
			cls, det := firstJSONDiff(before, after)
			c.R.Fail("mutated-by:"+name, fmt.Sprintf("%s: %s changed the envelope (%s %s; fingerprint %x→%x)", origin, name, cls, det, fpB, fpA), wit())
			before, fpB = after, fpA
		}
		c.R.Count("readonly_ops_checked", 1)
	}
}
