package checks

import (
	"encoding/json"
	"fmt"
	"strings"
	"sync"

	"verif/internal/dec"
	"verif/internal/defs"
	"verif/internal/gen"
	"verif/internal/gx"
	"verif/internal/jmut"
	"verif/internal/refcalc"
)

// Shared machinery for C01/C02/C03/C17: run the real calculation on a
// document, read every presented figure, and run the reference on the same
// input.

type outLineDC struct {
	Base   *string `json:"base,omitempty"`
	Amount string  `json:"amount"`
}

type outLine struct {
	Quantity string `json:"quantity"`
	Item     *struct {
		Price    *string `json:"price,omitempty"`
		Currency string  `json:"currency,omitempty"`
	} `json:"item,omitempty"`
	Sum       *string     `json:"sum,omitempty"`
	Total     *string     `json:"total,omitempty"`
	Discounts []outLineDC `json:"discounts,omitempty"`
	Charges   []outLineDC `json:"charges,omitempty"`
	Breakdown []struct {
		Sum   *string `json:"sum,omitempty"`
		Total *string `json:"total,omitempty"`
	} `json:"breakdown,omitempty"`
	Taxes []refcalc.Combo `json:"taxes,omitempty"`
}

type outDocDC struct {
	Amount string          `json:"amount"`
	Taxes  []refcalc.Combo `json:"taxes,omitempty"`
}

type outTotals struct {
	Sum          string   `json:"sum"`
	Discount     *string  `json:"discount,omitempty"`
	Charge       *string  `json:"charge,omitempty"`
	TaxIncluded  *string  `json:"tax_included,omitempty"`
	Total        string   `json:"total"`
	Taxes        *sumJSON `json:"taxes,omitempty"`
	Tax          string   `json:"tax"`
	TotalWithTax string   `json:"total_with_tax"`
	Rounding     *string  `json:"rounding,omitempty"`
	Payable      string   `json:"payable"`
	Advances     *string  `json:"advance,omitempty"`
	Due          *string  `json:"due,omitempty"`
}

type outDoc struct {
	Schema    string     `json:"$schema"`
	Regime    string     `json:"$regime"`
	Currency  string     `json:"currency"`
	Lines     []outLine  `json:"lines"`
	Discounts []outDocDC `json:"discounts"`
	Charges   []outDocDC `json:"charges"`
	Payment   *struct {
		Advances []struct {
			Amount string `json:"amount"`
		} `json:"advances"`
		Terms *struct {
			DueDates []struct {
				Amount string `json:"amount"`
			} `json:"due_dates"`
		} `json:"terms"`
	} `json:"payment"`
	Totals *outTotals `json:"totals"`
}

type billWorld struct {
	defs *defs.All
	cur  map[string]int
}

var (
	worldOnce sync.Once
	world     *billWorld
)

func getWorld() *billWorld {
	worldOnce.Do(func() {
		all, _ := defs.Load()
		world = &billWorld{defs: all, cur: gen.Currencies()}
	})
	return world
}

func (w *billWorld) decimals(c string) (int, bool) {
	d, ok := w.cur[c]
	return d, ok
}

func (w *billWorld) retained(docRegime string) func(refcalc.Combo) bool {
	return func(cb refcalc.Combo) bool {
		rc := docRegime
		if cb.Country != "" {
			rc = cb.Country
		}
		reg := w.defs.Regimes[rc]
		if reg == nil {
			// alternative country codes (GR for EL)
			for _, r := range w.defs.RegimeList {
				for _, a := range r.AltCodes {
					if a == rc {
						reg = r
					}
				}
			}
		}
		if reg == nil {
			return false
		}
		if cat := reg.CategoryDef(cb.Cat); cat != nil {
			return cat.Retained
		}
		return false
	}
}

type billRun struct {
	In      []byte
	OutEnv  []byte
	OutDoc  []byte
	Real    *outDoc
	RefIn   *refcalc.Doc
	Ref     *refcalc.Out
	Rule    string
	CalcErr error
	RefErr  error
	Panic   any
	PanicAt string // innermost gobl function on the panicking stack
}

// runBill calculates docJSON with the real library and with the reference.
func runBill(docJSON []byte, extra int) *billRun {
	r := &billRun{In: docJSON}
	w := getWorld()
	var stack string
	defer func() {
		if r.Panic != nil {
			r.PanicAt = panicSite(stack)
		}
	}()
	r.Panic, stack = Safely(func() {
		env, err := gx.EnvelopDoc(docJSON)
		if err != nil {
			r.CalcErr = err
			return
		}
		r.OutEnv, r.CalcErr = json.Marshal(env)
	})
	if r.Panic != nil || r.CalcErr != nil {
		return r
	}
	var err error
	if r.OutDoc, err = gx.DocJSON(r.OutEnv); err != nil {
		r.CalcErr = err
		return r
	}
	r.Real = new(outDoc)
	if err := json.Unmarshal(r.OutDoc, r.Real); err != nil {
		r.CalcErr = err
		return r
	}
	in, err := refcalc.ParseDoc(docJSON)
	if err != nil {
		r.RefErr = err
		return r
	}
	// the reference takes the resolved combos (percentages from rate keys) from the calculated document
	if len(in.Lines) != len(r.Real.Lines) || len(in.Discounts) != len(r.Real.Discounts) || len(in.Charges) != len(r.Real.Charges) {
		r.RefErr = refcalc.Unsupported{Why: "row count changed by normalisation"}
		return r
	}
	for i := range in.Lines {
		in.Lines[i].Taxes = r.Real.Lines[i].Taxes
	}
	for i := range in.Discounts {
		in.Discounts[i].Taxes = r.Real.Discounts[i].Taxes
	}
	for i := range in.Charges {
		in.Charges[i].Taxes = r.Real.Charges[i].Taxes
	}
	in.Currency = r.Real.Currency
	rule := ""
	if in.Tax != nil {
		rule = in.Tax.Rounding
	}
	if rule == "" {
		rule = "precise"
		if reg := w.defs.Regimes[r.Real.Regime]; reg != nil && reg.Rounding != "" {
			rule = reg.Rounding
		}
	}
	r.Rule = rule
	r.RefIn = in
	r.Ref, r.RefErr = refcalc.Calculate(in, &refcalc.Env{Decimals: w.decimals, Rule: rule, Retained: w.retained(r.Real.Regime), Extra: extra})
	return r
}

type figDiff struct {
	Path  string
	Class string
	Real  string
	Ref   string
}

func cmpFig(out *[]figDiff, path, class string, real *string, ref *dec.D) {
	switch {
	case real == nil && ref == nil:
	case real == nil:
		*out = append(*out, figDiff{path, class, "absent", ref.String()})
	case ref == nil:
		*out = append(*out, figDiff{path, class, *real, "absent"})
	case *real != ref.String():
		*out = append(*out, figDiff{path, class, *real, ref.String()})
	}
}

func sp(s string) *string { return &s }

// compareFigures lists every presented figure that differs from the reference.
func compareFigures(r *billRun) []figDiff {
	var d []figDiff
	real, ref := r.Real, r.Ref
	for i, l := range real.Lines {
		rl := ref.Lines[i]
		if rl.Skipped {
			continue
		}
		p := fmt.Sprintf("lines[%d]", i)
		var price *string
		if l.Item != nil {
			price = l.Item.Price
		}
		cmpFig(&d, p+".item.price", "lines.item.price", price, rl.Price)
		cmpFig(&d, p+".sum", "lines.sum", l.Sum, rl.Sum)
		cmpFig(&d, p+".total", "lines.total", l.Total, rl.Total)
		if len(l.Discounts) == len(rl.Discounts) {
			for j := range l.Discounts {
				cmpFig(&d, fmt.Sprintf("%s.discounts[%d].amount", p, j), "lines.discounts.amount", sp(l.Discounts[j].Amount), &rl.Discounts[j].Amount)
				if rl.Discounts[j].Base != nil {
					cmpFig(&d, fmt.Sprintf("%s.discounts[%d].base", p, j), "lines.discounts.base", l.Discounts[j].Base, rl.Discounts[j].Base)
				}
			}
		} else {
			// rows that carry nothing (amount zero) are removed by the documented clean-up
			// of line discounts; they contribute to no figure, so the rest is compared
			var ra, fa []string
			for _, x := range l.Discounts {
				if v := mustD(x.Amount); v.Sign() != 0 {
					ra = append(ra, v.String())
				}
			}
			for _, x := range rl.Discounts {
				if x.Amount.Sign() != 0 {
					fa = append(fa, x.Amount.String())
				}
			}
			if strings.Join(ra, " ") != strings.Join(fa, " ") {
				d = append(d, figDiff{p + ".discounts", "lines.discounts.count", fmt.Sprint(len(l.Discounts), " ", ra), fmt.Sprint(len(rl.Discounts), " ", fa)})
			}
		}
		if len(l.Charges) == len(rl.Charges) {
			for j := range l.Charges {
				cmpFig(&d, fmt.Sprintf("%s.charges[%d].amount", p, j), "lines.charges.amount", sp(l.Charges[j].Amount), &rl.Charges[j].Amount)
			}
		} else {
			var ra, fa []string
			for _, x := range l.Charges {
				if v := mustD(x.Amount); v.Sign() != 0 {
					ra = append(ra, v.String())
				}
			}
			for _, x := range rl.Charges {
				if x.Amount.Sign() != 0 {
					fa = append(fa, x.Amount.String())
				}
			}
			if strings.Join(ra, " ") != strings.Join(fa, " ") {
				d = append(d, figDiff{p + ".charges", "lines.charges.count", fmt.Sprint(len(l.Charges), " ", ra), fmt.Sprint(len(rl.Charges), " ", fa)})
			}
		}
		if len(l.Breakdown) == len(rl.Breakdown) {
			for j := range l.Breakdown {
				cmpFig(&d, fmt.Sprintf("%s.breakdown[%d].sum", p, j), "lines.breakdown.sum", l.Breakdown[j].Sum, rl.Breakdown[j].Sum)
				cmpFig(&d, fmt.Sprintf("%s.breakdown[%d].total", p, j), "lines.breakdown.total", l.Breakdown[j].Total, rl.Breakdown[j].Total)
			}
		}
	}
	if !ref.HasTotals {
		if real.Totals != nil {
			d = append(d, figDiff{"totals", "totals.presence", "present", "absent"})
		}
		return d
	}
	if real.Totals == nil {
		return append(d, figDiff{"totals", "totals.presence", "absent", "present"})
	}
	for i := range real.Discounts {
		cmpFig(&d, fmt.Sprintf("discounts[%d].amount", i), "discounts.amount", sp(real.Discounts[i].Amount), &ref.Discounts[i])
	}
	for i := range real.Charges {
		cmpFig(&d, fmt.Sprintf("charges[%d].amount", i), "charges.amount", sp(real.Charges[i].Amount), &ref.Charges[i])
	}
	t := real.Totals
	cmpFig(&d, "totals.sum", "totals.sum", sp(t.Sum), &ref.Sum)
	cmpFig(&d, "totals.discount", "totals.discount", t.Discount, ref.Discount)
	cmpFig(&d, "totals.charge", "totals.charge", t.Charge, ref.Charge)
	cmpFig(&d, "totals.tax_included", "totals.tax_included", t.TaxIncluded, ref.TaxIncluded)
	cmpFig(&d, "totals.total", "totals.total", sp(t.Total), &ref.Total)
	cmpFig(&d, "totals.tax", "totals.tax", sp(t.Tax), &ref.Tax)
	cmpFig(&d, "totals.total_with_tax", "totals.total_with_tax", sp(t.TotalWithTax), &ref.TotalWithTax)
	cmpFig(&d, "totals.payable", "totals.payable", sp(t.Payable), &ref.Payable)
	cmpFig(&d, "totals.advance", "totals.advance", t.Advances, ref.Advance)
	cmpFig(&d, "totals.due", "totals.due", t.Due, ref.Due)
	if real.Payment != nil {
		if len(real.Payment.Advances) == len(ref.Advances) {
			for i, a := range real.Payment.Advances {
				cmpFig(&d, fmt.Sprintf("payment.advances[%d].amount", i), "payment.advances.amount", sp(a.Amount), &ref.Advances[i])
			}
		}
		if real.Payment.Terms != nil && len(real.Payment.Terms.DueDates) == len(ref.DueDates) {
			for i, a := range real.Payment.Terms.DueDates {
				cmpFig(&d, fmt.Sprintf("payment.terms.due_dates[%d].amount", i), "payment.due_dates.amount", sp(a.Amount), &ref.DueDates[i])
			}
		}
	}
	// tax summary
	d = append(d, compareTaxSummary(t.Taxes, ref)...)
	return d
}

// compareTaxSummary matches presented rate rows with reference groups by key.
func compareTaxSummary(ts *sumJSON, ref *refcalc.Out) []figDiff {
	var d []figDiff
	if ts == nil {
		if len(ref.Cats) > 0 {
			d = append(d, figDiff{"totals.taxes", "taxes.presence", "absent", fmt.Sprintf("%d categories", len(ref.Cats))})
		}
		return d
	}
	cmpFig(&d, "totals.taxes.sum", "taxes.sum", sp(ts.Sum), &ref.TaxSum)
	if len(ts.Categories) != len(ref.Cats) {
		d = append(d, figDiff{"totals.taxes.categories", "taxes.category-count", fmt.Sprint(len(ts.Categories)), fmt.Sprint(len(ref.Cats))})
		return d
	}
	for i, c := range ts.Categories {
		rc := ref.Cats[i]
		p := fmt.Sprintf("totals.taxes.categories[%s]", c.Code)
		if c.Code != rc.Code {
			d = append(d, figDiff{p, "taxes.category-order", c.Code, rc.Code})
			continue
		}
		if c.Retained != rc.Retained {
			d = append(d, figDiff{p + ".retained", "taxes.retained", fmt.Sprint(c.Retained), fmt.Sprint(rc.Retained)})
		}
		cmpFig(&d, p+".amount", "taxes.category.amount", sp(c.Amount), &rc.Amount)
		cmpFig(&d, p+".surcharge", "taxes.category.surcharge", c.Surcharge, rc.Surcharge)
		if len(c.Rates) != len(rc.Rates) {
			d = append(d, figDiff{p + ".rates", "taxes.rate-count", fmt.Sprint(len(c.Rates)), fmt.Sprint(len(rc.Rates))})
			continue
		}
		for j, rt := range c.Rates {
			rr := rc.Rates[j]
			q := fmt.Sprintf("%s.rates[%d]", p, j)
			cb := refcalc.Combo{Cat: c.Code, Country: rt.Country, Percent: rt.Percent, Ext: rt.Ext}
			if rt.Surcharge != nil {
				cb.Surcharge = &rt.Surcharge.Percent
			}
			if refcalc.GroupKey(cb) != rr.Key {
				d = append(d, figDiff{q, "taxes.group-key", refcalc.GroupKey(cb), rr.Key})
				continue
			}
			cmpFig(&d, q+".base", "taxes.rate.base", sp(rt.Base), &rr.Base)
			cmpFig(&d, q+".amount", "taxes.rate.amount", sp(rt.Amount), &rr.Amount)
			var sa *string
			if rt.Surcharge != nil {
				sa = &rt.Surcharge.Amount
			}
			cmpFig(&d, q+".surcharge.amount", "taxes.rate.surcharge", sa, rr.SurAmount)
		}
	}
	return d
}

func featureList(m map[string]bool) []string {
	var out []string
	for k, v := range m {
		if v {
			out = append(out, k)
		}
	}
	return out
}

type refOut = refcalc.Out

func refCalcWith(r *billRun, w *billWorld, extra int) (*refcalc.Out, error) {
	return refcalc.Calculate(r.RefIn, &refcalc.Env{Decimals: w.decimals, Rule: r.Rule, Retained: w.retained(r.Real.Regime), Extra: extra})
}

// staleEdit takes a calculated document (with its totals and per-row computed
// members still in place), removes one kind of input row and returns the
// result: recalculating it has to give what calculating the edited input from
// scratch gives, so nothing computed earlier may survive.
func staleEdit(out []byte, pick func(n int) int) (name string, edited []byte) {
	n, err := jmut.Parse(out)
	if err != nil || n.K != jmut.Obj {
		return "", nil
	}
	type ed struct {
		name string
		ok   bool
		do   func()
	}
	lines := n.Get("lines")
	hasLines := lines != nil && lines.K == jmut.Arr && len(lines.A) > 0
	firstLineHas := func(k string) bool {
		return hasLines && lines.A[0].K == jmut.Obj && lines.A[0].Get(k) != nil
	}
	pay := n.Get("payment")
	tx := n.Get("tax")
	eds := []ed{
		{"charges", n.Get("charges") != nil, func() { n.Del("charges") }},
		{"discounts", n.Get("discounts") != nil, func() { n.Del("discounts") }},
		{"payment", pay != nil, func() { n.Del("payment") }},
		{"payment.advances", pay != nil && pay.K == jmut.Obj && pay.Get("advances") != nil, func() { pay.Del("advances") }},
		{"last-line", hasLines && len(lines.A) > 1, func() { lines.A = lines.A[:len(lines.A)-1] }},
		{"lines[0].charges", firstLineHas("charges"), func() { lines.A[0].Del("charges") }},
		{"lines[0].discounts", firstLineHas("discounts"), func() { lines.A[0].Del("discounts") }},
		{"tax.prices_include", tx != nil && tx.K == jmut.Obj && tx.Get("prices_include") != nil, func() { tx.Del("prices_include") }},
		{"all-line-taxes", hasLines && firstLineHas("taxes"), func() {
			for _, l := range lines.A {
				if l.K == jmut.Obj {
					l.Del("taxes")
				}
			}
			for _, k := range []string{"discounts", "charges"} {
				if rows := n.Get(k); rows != nil && rows.K == jmut.Arr {
					for _, r := range rows.A {
						if r.K == jmut.Obj {
							r.Del("taxes")
						}
					}
				}
			}
		}},
	}
	var app []ed
	for _, e := range eds {
		if e.ok {
			app = append(app, e)
		}
	}
	if len(app) == 0 {
		return "", nil
	}
	e := app[pick(len(app))]
	e.do()
	return e.name, n.Bytes()
}
