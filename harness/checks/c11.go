package checks

import (
	"bufio"
	"bytes"
	"encoding/json"
	"fmt"
	"os"
	"os/exec"
	"path/filepath"
	"regexp"
	"sort"
	"strconv"
	"strings"
	"time"

	"github.com/invopop/gobl/bill"
	"github.com/invopop/gobl/org"
	"github.com/invopop/gobl/pay"

	"verif/internal/corpus"
	"verif/internal/ev"
	"verif/internal/gx"
	"verif/internal/jmut"
)

// C11 — published JSON Schemas are valid and every valid document conforms.
//
// Monitor: py/schema_monitor.py (python jsonschema, draft 2020-12, under
// python3-vt). The Go side produces the documents: it is the library's own
// verdict (calculated and validated) that selects what is sent to the monitor.

func init() { Register("C11", runC11) }

type c11doc struct {
	ID   string          `json:"id"`
	JSON json.RawMessage `json:"json"`
}

func c11pools() map[string][]string {
	p := map[string][]string{}
	for _, u := range org.UnitDefinitions {
		p["unit"] = append(p["unit"], string(u.Unit))
	}
	for _, d := range org.NoteKeyDefinitions {
		p["note-key"] = append(p["note-key"], d.Key.String())
	}
	for _, d := range pay.MeansKeyDefinitions {
		p["means-key"] = append(p["means-key"], d.Key.String())
	}
	for _, d := range pay.TermKeyDefinitions {
		p["term-key"] = append(p["term-key"], d.Key.String())
	}
	for _, d := range bill.InvoiceTypes {
		p["invoice-type"] = append(p["invoice-type"], d.Key.String())
	}
	p["uuid"] = []string{"urn:uuid:0190a1b2-c3d4-7e5f-8a9b-0c1d2e3f4a5b", "{0190a1b2-c3d4-7e5f-8a9b-0c1d2e3f4a5b}", "0190a1b2c3d47e5f8a9b0c1d2e3f4a5b", "0190A1B2-C3D4-7E5F-8A9B-0C1D2E3F4A5B", "0190a1b2-c3d4-7e5f-8a9b-0c1d2e3f4a5c"}
	p["code"] = []string{"A", "a", "0", "A-1", "A/1", "A.1", "A 1", "A_1", "A:1", "1234567890123456789012345678901234567890123456789012345678901234", "ABCDEFGHIJKLMNOPQRSTUVWXYZ0123456789", "a-b/c.d e_f:g", "X1-Y2"}
	p["name"] = []string{"A", "Ünïcödé Ñame S.L.", "名前", "O'Brien & Sons <Ltd>", "tab\tname", "x" + strings.Repeat("y", 300)}
	p["url"] = []string{"http://example.com", "https://example.com/a?b=c#d", "https://example.com:8080/p/a/t/h", "ftp://example.com/file", "http://localhost", "https://xn--nxasmq6b.example", "HTTP://EXAMPLE.COM", "https://example.com/%20space", "http://example.com/ñ"}
	p["email"] = []string{"a@b.co", "first.last+tag@sub.example.com", "UPPER@EXAMPLE.COM", "x@y.z"}
	p["date"] = []string{"2024-02-29", "1900-01-01", "2099-12-31", "2000-02-29"}
	p["percent"] = []string{"0%", "0.0%", "100%", "12.345%", "-5%", "0.001%"}
	p["amount"] = []string{"0", "0.00", "1", "-1.00", "123456789.123456", "0.000001", "0.9100000000000000000", "0.2500000000000000000", "1.50000000000000000000", "0.00000000000000000001"}
	p["tel"] = []string{"+34 600 000 000", "600000000", "(+1) 555-0100 ext. 9"}
	p["text"] = []string{"x", "multi\nline", "emoji 😀", "quotes \" and \\ backslash", strings.Repeat("long ", 500)}
	return p
}

// c11variants: field-level mutations that a valid document may survive.
func c11variants(doc *jmut.Node, pools map[string][]string, pick func(n int) int, max int) []*jmut.Node {
	type cand struct {
		p    jmut.Path
		pool string
	}
	var cands []cand
	doc.Walk(func(p jmut.Path, n *jmut.Node) {
		if len(p) == 0 || n.K != jmut.Str {
			return
		}
		key := p[len(p)-1].Key
		cls := p.Class()
		switch {
		case key == "uuid":
			cands = append(cands, cand{p, "uuid"})
		case key == "unit":
			cands = append(cands, cand{p, "unit"})
		case key == "key" && strings.HasSuffix(cls, "notes[].key"):
			cands = append(cands, cand{p, "note-key"})
		case key == "key" && strings.HasSuffix(cls, "instructions.key"):
			cands = append(cands, cand{p, "means-key"})
		case key == "key" && strings.HasSuffix(cls, "terms.key"):
			cands = append(cands, cand{p, "term-key"})
		case key == "type" && len(p) == 1:
			cands = append(cands, cand{p, "invoice-type"})
		case key == "code" && (len(p) == 1 || strings.HasSuffix(cls, "identities[].code") || strings.HasSuffix(cls, "ordering.code")), key == "series", key == "ref":
			cands = append(cands, cand{p, "code"})
		case key == "name" || key == "alias" || key == "street" || key == "locality":
			cands = append(cands, cand{p, "name"})
		case key == "url":
			cands = append(cands, cand{p, "url"})
		case key == "addr":
			cands = append(cands, cand{p, "email"})
		case key == "issue_date" || key == "value_date" || key == "op_date" || key == "date":
			cands = append(cands, cand{p, "date"})
		case key == "percent" && !strings.Contains(cls, "totals"):
			cands = append(cands, cand{p, "percent"})
		case key == "quantity" || key == "price":
			cands = append(cands, cand{p, "amount"})
		case key == "num" && strings.Contains(cls, "telephones"):
			cands = append(cands, cand{p, "tel"})
		case key == "text" || key == "description" || key == "reason" || key == "notes":
			cands = append(cands, cand{p, "text"})
		}
	})
	var out []*jmut.Node
	for i := 0; i < max && len(cands) > 0; i++ {
		cd := cands[pick(len(cands))]
		pool := pools[cd.pool]
		d := doc.Clone()
		d.Replace(cd.p, jmut.S(pool[pick(len(pool))]))
		// sometimes a second field as well
		if pick(3) == 0 {
			c2 := cands[pick(len(cands))]
			p2 := pools[c2.pool]
			d.Replace(c2.p, jmut.S(p2[pick(len(p2))]))
		}
		d.Del("totals")
		out = append(out, d)
	}
	// additions of optional members with format constraints
	for _, add := range []struct {
		path string
		val  *jmut.Node
	}{
		{"supplier.websites", jmut.Ar(jmut.O(jmut.Member{Key: "url", Val: jmut.S("https://example.com/a?b=c")}))},
		{"supplier.emails", jmut.Ar(jmut.O(jmut.Member{Key: "addr", Val: jmut.S("billing+x@example.com")}))},
		{"supplier.logos", jmut.Ar(jmut.O(jmut.Member{Key: "url", Val: jmut.S("https://example.com/logo.png")}))},
		{"meta", jmut.O(jmut.Member{Key: "some-key", Val: jmut.S("value")})},
		{"attachments", jmut.Ar(jmut.O(jmut.Member{Key: "code", Val: jmut.S("ATT1")}, jmut.Member{Key: "url", Val: jmut.S("https://example.com/doc.pdf")}))},
		{"lines.0.charges", jmut.Ar(jmut.O(jmut.Member{Key: "reason", Val: jmut.S("levy")}, jmut.Member{Key: "quantity", Val: jmut.S("3")}, jmut.Member{Key: "unit", Val: jmut.S("l")}, jmut.Member{Key: "rate", Val: jmut.S("0.10")}))},
		{"lines.0.discounts", jmut.Ar(jmut.O(jmut.Member{Key: "reason", Val: jmut.S("promo")}, jmut.Member{Key: "percent", Val: jmut.S("5%")}))},
		{"lines.0.item.identities", jmut.Ar(jmut.O(jmut.Member{Key: "type", Val: jmut.S("GTIN")}, jmut.Member{Key: "code", Val: jmut.S("0123456789012")}))},
		{"lines.0.item.unit", jmut.S("kg")},
		{"lines.0.item.origin", jmut.S("PT")},
		{"supplier.people", jmut.Ar(jmut.O(jmut.Member{Key: "name", Val: jmut.O(jmut.Member{Key: "given", Val: jmut.S("Ana")}, jmut.Member{Key: "surname", Val: jmut.S("Pérez")})}))},
		{"supplier.telephones", jmut.Ar(jmut.O(jmut.Member{Key: "num", Val: jmut.S("+34 600 000 000")}))},
		{"supplier.registration", jmut.O(jmut.Member{Key: "capital", Val: jmut.S("3000.00")}, jmut.Member{Key: "currency", Val: jmut.S("EUR")}, jmut.Member{Key: "office", Val: jmut.S("Madrid")})},
		{"delivery", jmut.O(jmut.Member{Key: "date", Val: jmut.S("2024-01-15")}, jmut.Member{Key: "period", Val: jmut.O(jmut.Member{Key: "start", Val: jmut.S("2024-01-01")}, jmut.Member{Key: "end", Val: jmut.S("2024-01-31")})})},
		{"ordering", jmut.O(jmut.Member{Key: "code", Val: jmut.S("PO-1")}, jmut.Member{Key: "period", Val: jmut.O(jmut.Member{Key: "start", Val: jmut.S("2024-01-01")}, jmut.Member{Key: "end", Val: jmut.S("2024-01-31")})})},
	} {
		d := doc.Clone()
		parts := strings.Split(add.path, ".")
		cur := d
		for _, k := range parts[:len(parts)-1] {
			if cur == nil {
				break
			}
			if idx, err := strconv.Atoi(k); err == nil {
				if cur.K == jmut.Arr && idx < len(cur.A) {
					cur = cur.A[idx]
				} else {
					cur = nil
				}
				continue
			}
			cur = cur.Get(k)
		}
		if cur == nil || cur.K != jmut.Obj {
			continue
		}
		cur.Set(parts[len(parts)-1], add.val.Clone())
		d.Del("totals")
		out = append(out, d)
		// and every string inside the added member replaced by the hostile values
		out = append(out, c11generic(d, pick, 0, add.path)...)
	}
	return out
}

// c11hostile are well-formed strings that most constrained string types of the
// published schemas (keys, codes, units, currencies, countries, dates, uuids)
// do not allow: wherever the library accepts one, the schema has to as well.
var c11hostile = []string{"Litres", "per-litre", "lower", "UPPER", "Ab1", "12", "a b", "x_y", "A.B", "a/b", "-", "A-", "é", " x", "x ", "AAAAAAAAAAAAAAAAAAAAAAAAAAAAAAAAAAAAAAAAAAAAAAAAAAAAAAAAAAAAAAAAAAAAAAAAAAAAA", "2024-13-45", "0"}

// c11boundary are well-formed key-like and code-like strings whose lengths sit on
// and around every length limit the published schemas state (filled by runC11
// from data/schemas before any sweep runs).
var c11boundary []string
var c11overLimit = map[string]bool{}

func c11boundaryStrings(schemaDir string) []string {
	lens := map[int]bool{}
	re := regexp.MustCompile(`"(?:max|min)Length":\s*([0-9]+)`)
	_ = filepath.Walk(schemaDir, func(path string, info os.FileInfo, err error) error {
		if err != nil || info.IsDir() || !strings.HasSuffix(path, ".json") {
			return nil
		}
		b, rerr := os.ReadFile(path)
		if rerr != nil {
			return nil
		}
		for _, m := range re.FindAllSubmatch(b, -1) {
			if n, aerr := strconv.Atoi(string(m[1])); aerr == nil && n > 1 && n < 4096 {
				lens[n] = true
			}
		}
		return nil
	})
	var ls []int
	for n := range lens {
		ls = append(ls, n)
	}
	sort.Ints(ls)
	var out []string
	for _, n := range ls {
		for _, l := range []int{n - 1, n, n + 1, n + 2} {
			k, cd := "k"+strings.Repeat("a", l-2)+"z", "C"+strings.Repeat("A", l-2)+"9"
			out = append(out, k, cd)
			if l == n+1 {
				c11overLimit[k], c11overLimit[cd] = true, true
			}
		}
	}
	return out
}

// c11freeText keys hold prose; two hostile values are enough there.
var c11freeText = map[string]bool{"name": true, "alias": true, "text": true, "description": true, "reason": true, "notes": true, "street": true, "street_extra": true, "locality": true, "region": true, "label": true, "title": true, "detail": true, "given": true, "surname": true, "val": true}

// c11generic replaces every string of the document (any depth) by each hostile
// value; limit > 0 takes a seed-determined sample of that many.
func c11generic(doc *jmut.Node, pick func(n int) int, limit int, under string) []*jmut.Node {
	type cand struct {
		p   jmut.Path
		v   string
		tag string // non-empty: always tried, once per (member name, tag) of the document
	}
	var cands []cand
	doc.Walk(func(p jmut.Path, n *jmut.Node) {
		if len(p) == 0 || n.K != jmut.Str {
			return
		}
		key := p[len(p)-1].Key
		if key == "$schema" || strings.HasPrefix(p.Class(), "totals") {
			return
		}
		if under != "" && !strings.HasPrefix(strings.NewReplacer("[", ".", "]", "").Replace(p.String()), under) {
			return
		}
		vals := c11hostile
		if c11freeText[key] || (len(p) > 1 && p[len(p)-2].Key == "meta") {
			vals = c11hostile[:2]
		} else if len(c11boundary) > 0 {
			vals = append(append([]string{}, c11hostile...), c11boundary...)
		}
		for _, v := range vals {
			if v != n.S {
				tag := ""
				if c11overLimit[v] {
					tag = "over-limit:" + v[:1]
				}
				cands = append(cands, cand{p, v, tag})
			}
		}
		// near misses of the value itself: extended keys, other case, appended characters
		if !c11freeText[key] && n.S != "" && len(n.S) < 60 {
			near := []string{n.S + "+x", n.S + "+x+y", n.S + "+sepa+instant", n.S + "-x", n.S + "1", n.S + ".", strings.ToUpper(n.S), strings.ToLower(n.S), n.S[:len(n.S)-1]}
			// the value with its first separator written as other white space, or doubled
			if i := strings.IndexAny(n.S, ".-/ _:"); i > 0 {
				near = append(near, n.S[:i]+"\t"+n.S[i+1:], n.S[:i]+"\n"+n.S[i+1:], n.S[:i]+n.S[i:i+1]+n.S[i:])
			} else if len(n.S) > 3 {
				near = append(near, n.S[:2]+"\t"+n.S[2:], n.S[:2]+" "+n.S[2:], n.S[:2]+"."+n.S[2:])
			}
			for ni, v := range near {
				if v != n.S && v != "" {
					tag := ""
					if ni < 3 {
						tag = fmt.Sprintf("extended-key-%d", ni) // value+x, value+x+y, value+sepa+instant
					} else if ni == 6 || ni == 7 {
						tag = fmt.Sprintf("other-case-%d", ni) // the value in capitals / in small letters
					}
					cands = append(cands, cand{p, v, tag})
				}
			}
		}
	})
	if limit > 0 && len(cands) > limit {
		// extension values (each with its own value list or pattern) are always
		// taken in full; the rest is sampled
		var keep, rest []cand
		seenName := map[string]bool{}
		for _, cd := range cands {
			name := cd.p[len(cd.p)-1].Key + "|" + cd.tag
			if len(cd.p) > 1 && cd.p[len(cd.p)-2].Key == "ext" {
				keep = append(keep, cd)
			} else if cd.tag != "" && !seenName[name] {
				// one character more than a published length limit, and the value extended
				// by further '+' parts: always tried once per member name of the document
				// (whether these were met used to depend on the sample, §10.10)
				seenName[name] = true
				keep = append(keep, cd)
			} else {
				rest = append(rest, cd)
			}
		}
		for i := 0; i < limit && i < len(rest); i++ {
			j := i + pick(len(rest)-i)
			rest[i], rest[j] = rest[j], rest[i]
		}
		if len(rest) > limit {
			rest = rest[:limit]
		}
		cands = append(keep, rest...)
	}
	out := make([]*jmut.Node, 0, len(cands))
	for _, cd := range cands {
		d := doc.Clone()
		d.Replace(cd.p, jmut.S(cd.v))
		d.Del("totals")
		out = append(out, d)
	}
	return out
}

func runC11(c *Ctx) {
	c.R.Rule("(1) every file under data/schemas: draft 2020-12 metaschema check, every $ref resolved, every pattern compiled; (2) documents the library accepts (calculated + validated): the corpus envelopes re-serialised by the library and field-level variants of them (every defined unit, note/payment/term key and invoice type, codes at the edges of the Go-side pattern, URLs/e-mails/dates/percentages/amounts in the forms the Go validators accept, unicode and long texts, optional members with format constraints) — forwarded to the python jsonschema monitor only when accepted. non-trivial = a document accepted by the library; distinct by serialised envelope")
	c.R.Assume("python jsonschema 4.26 (Draft202012Validator, referencing.Registry keyed by $id) with format assertion for date, email, time, uuid and an own RFC 3986 absolute-URI check; python's regex dialect is used for `pattern` (patterns that do not compile are reported as schema problems)")
	py := "python3-vt"
	if _, err := exec.LookPath(py); err != nil {
		c.R.Inconclusive("python3-vt-not-found")
		return
	}
	script := filepath.Join(ev.Root(), "py", "schema_monitor.py")
	schemaDir := filepath.Join(ev.Repo(), "data", "schemas")
	c11boundary = c11boundaryStrings(schemaDir)
	c.R.Set("length_boundary_strings", len(c11boundary))
	// (1) schema files
	out, err := runCmd(ev.Root(), 10*time.Minute, py, script, "check", schemaDir)
	if err != nil {
		c.R.Inconclusive("schema-check-failed:" + trunc(out))
		return
	}
	nfiles := int64(0)
	for _, l := range strings.Split(strings.TrimSpace(out), "\n") {
		var m map[string]any
		if json.Unmarshal([]byte(l), &m) != nil {
			continue
		}
		if s, ok := m["summary"].(map[string]any); ok {
			if f, ok := s["files"].(float64); ok {
				nfiles = int64(f)
			}
			c.R.Set("schema_files", s)
			continue
		}
		if m["kind"] == "schema-invalid" {
			c.R.Fail(fmt.Sprintf("schema-invalid:%v:%v", m["file"], strings.SplitN(fmt.Sprint(m["reason"]), ":", 2)[0]), fmt.Sprintf("data/schemas/%v: %v: %v", m["file"], m["reason"], m["message"]), m)
		}
	}
	c.R.Cases(nfiles, nfiles)
	if nfiles == 0 {
		c.R.Inconclusive("no-schema-files-seen")
		return
	}

	// (2) documents
	pools := c11pools()
	items := corpus.Golden()
	perDoc := c.N(50, 1500)
	type produced struct {
		id  string
		env []byte
	}
	results := make([][]produced, len(items))
	c.Parallel(len(items), func(i int) {
		it := items[i]
		rng := c.Rand(uint64(i))
		// the shipped envelope, re-serialised by the library
		if env, err := gx.ParseEnvelope(it.Data); err == nil {
			var verr error
			if p, _ := Safely(func() { verr = env.Validate() }); p == nil && verr == nil {
				b, _ := json.Marshal(env)
				results[i] = append(results[i], produced{it.Rel, b})
			}
		}
		docB, err := gx.DocJSON(it.Data)
		if err != nil {
			return
		}
		doc, err := jmut.Parse(docB)
		if err != nil {
			return
		}
		vs := c11variants(doc, pools, rng.IntN, perDoc)
		vs = append(vs, c11generic(doc, rng.IntN, c.N(120, 0), "")...)
		for k, v := range vs {
			var b []byte
			var verr error
			p, _ := Safely(func() {
				env, e := gx.EnvelopDoc(v.Bytes())
				verr = e
				if e == nil {
					if verr = env.Validate(); verr == nil {
						b, verr = json.Marshal(env)
					}
				}
			})
			if p != nil || verr != nil {
				c.R.Count("variants_rejected_by_library", 1)
				continue
			}
			results[i] = append(results[i], produced{fmt.Sprintf("%s#variant-%d", it.Rel, k), b})
		}
	})
	// generated documents (the calculation grammar in all profiles, payments with
	// document tax summaries incl. empty rate lists): what validates is forwarded too
	{
		nGen := c.N(2400, 60000)
		gres := make([][]produced, 16)
		c.Parallel(16, func(ci int) {
			genCases(c.Seed*100+int64(ci), nGen/16, func(name string, data []byte) {
				var b []byte
				var verr error
				p, _ := Safely(func() {
					env, e := gx.EnvelopDoc(data)
					verr = e
					if e == nil {
						if verr = env.Validate(); verr == nil {
							b, verr = json.Marshal(env)
						}
					}
				})
				if p != nil || verr != nil {
					c.R.Count("generated_rejected_by_library", 1)
					return
				}
				c.R.Count("generated_accepted", 1)
				gres[ci] = append(gres[ci], produced{name, b})
			})
		})
		results = append(results, gres...)
	}
	tmp, err := os.MkdirTemp("", "verif-c11-")
	if err != nil {
		c.R.Inconclusive("tmp")
		return
	}
	defer os.RemoveAll(tmp)
	inFile := filepath.Join(tmp, "docs.jsonl")
	f, _ := os.Create(inFile)
	bw := bufio.NewWriter(f)
	byID := map[string][]byte{}
	n := 0
	for _, rs := range results {
		for _, r := range rs {
			l, _ := json.Marshal(c11doc{r.id, r.env})
			bw.Write(l)
			bw.WriteByte('\n')
			byID[r.id] = r.env
			c.R.Case(true, ev.HashBytes(r.env))
			n++
		}
	}
	bw.Flush()
	f.Close()
	c.R.Set("documents_accepted_and_forwarded", n)
	cmd := exec.Command(py, script, "validate", schemaDir)
	in, _ := os.Open(inFile)
	defer in.Close()
	cmd.Stdin = in
	var ob, eb bytes.Buffer
	cmd.Stdout, cmd.Stderr = &ob, &eb
	if err := runWithTimeout(cmd, 60*time.Minute); err != nil {
		c.R.Inconclusive("python-monitor-failed:" + trunc(eb.String()))
		return
	}
	kw := map[string]int64{}
	sawSummary := false
	for _, l := range strings.Split(strings.TrimSpace(ob.String()), "\n") {
		var m map[string]any
		if json.Unmarshal([]byte(l), &m) != nil {
			continue
		}
		if s, ok := m["summary"].(map[string]any); ok {
			sawSummary = true
			var files []string
			for k := range s {
				if strings.HasPrefix(k, "instances:") {
					files = append(files, strings.TrimPrefix(k, "instances:"))
				}
			}
			sort.Strings(files)
			c.R.Set("schema_files_exercised", files)
			c.R.Set("monitor_summary", s)
			continue
		}
		switch m["kind"] {
		case "rejects":
			kw[fmt.Sprint(m["keyword"])]++
			id := fmt.Sprint(m["id"])
			sig := fmt.Sprintf("rejects:%v:%v:%v", m["schema"], m["keyword"], m["path"])
			if msg := fmt.Sprint(m["message"]); m["keyword"] == "pattern" && strings.HasSuffix(fmt.Sprint(m["path"]), "tax_id.code") && (strings.Contains(strings.SplitN(msg, " does not match", 2)[0], "&") || strings.Contains(strings.SplitN(msg, " does not match", 2)[0], "Ñ")) {
				// one defect, whatever party or document carries the code
				sig = "rejects:tax-identity-code-pattern:mx-rfc-special-characters"
			}
			c.R.Fail(sig,
				fmt.Sprintf("%s is accepted by the library but the published schema %v rejects it at %v (%v): %v", id, m["schema"], m["path"], m["keyword"], m["message"]),
				map[string]any{"id": id, "finding": m, "envelope": json.RawMessage(byID[id])})
		case "no-schema":
			c.R.Fail(fmt.Sprintf("no-published-schema:%v", m["schema"]), fmt.Sprintf("%v names schema %v which is not published", m["id"], m["schema"]), m)
		}
	}
	if !sawSummary {
		c.R.Inconclusive("python-monitor-no-summary")
	}
	for k, v := range kw {
		c.R.Count("rejections_by_keyword:"+k, v)
	}
	c.R.Sample(map[string]any{"document": items[0].Rel, "validated_against": []string{"envelope.json", items[0].Type + ".json"}})
	c.Require("generated_accepted", "variants_rejected_by_library")
}
