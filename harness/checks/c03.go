package checks

import (
	"bytes"
	"encoding/json"
	"fmt"
	"math/big"
	"sort"
	"strings"

	"github.com/invopop/gobl/bill"
	"github.com/invopop/gobl/currency"

	"verif/internal/corpus"
	"verif/internal/dec"
	"verif/internal/ev"
	"verif/internal/gen"
	"verif/internal/gx"
	"verif/internal/jmut"
)

// C03 — under currency rounding every presented amount re-adds exactly.
//
// Pure observation of the calculated JSON: no reference calculation, only the
// identities of the statement evaluated in exact decimals on the presented
// figures.

func init() { Register("C03", runC03) }

type c03doc struct {
	Currency string `json:"currency"`
	Lines    []struct {
		Item *struct {
			Price *string `json:"price"`
		} `json:"item"`
		Sum       *string `json:"sum"`
		Total     *string `json:"total"`
		Discounts []struct {
			Amount string `json:"amount"`
		} `json:"discounts"`
		Charges []struct {
			Amount string `json:"amount"`
		} `json:"charges"`
	} `json:"lines"`
	Discounts []struct {
		Amount string `json:"amount"`
	} `json:"discounts"`
	Charges []struct {
		Amount string `json:"amount"`
	} `json:"charges"`
	Payment *struct {
		Advances []struct {
			Amount string `json:"amount"`
		} `json:"advances"`
		Terms *struct {
			DueDates []struct {
				Amount string `json:"amount"`
			} `json:"due_dates"`
		} `json:"terms"`
	} `json:"payment"`
	Totals *outTotals `json:"totals"`
}

// c03identities returns the first failing identity ("" when all hold).
func c03identities(d *c03doc, c int) (name, detail string, n int) {
	return c03identitiesOpt(d, c, false)
}

// totalsOnly skips the per-line identities (used on the result of
// RemoveIncludedTaxes, whose line discounts and charges are derived amounts kept
// with more decimals than the currency: as inputs they are outside the stated domain).
func c03identitiesOpt(d *c03doc, c int, totalsOnly bool, derivedAdvances ...bool) (name, detail string, n int) {
	// derivedAdvances: the advance rows are amounts the library derived itself with
	// more decimals than it presents (Invoice.ConvertInto); like fixed amounts
	// supplied with excess decimals they are outside the stated domain, so the rows
	// are not added up and the due amount is taken from totals.advance
	derived := len(derivedAdvances) > 0 && derivedAdvances[0]
	eq := func(a, b dec.D) bool { return a.Cmp(b) == 0 }
	decs := func(s string) int {
		x, ok := dec.Parse(s)
		if !ok {
			return 99
		}
		return x.E
	}
	sumLines := dec.Zero(c)
	for i, l := range d.Lines {
		if l.Sum == nil || l.Total == nil {
			continue
		}
		t := mustD(*l.Sum)
		for _, x := range l.Discounts {
			t = t.Sub(mustD(x.Amount))
		}
		for _, x := range l.Charges {
			t = t.Add(mustD(x.Amount))
		}
		n++
		if totalsOnly {
			sumLines = sumLines.Add(mustD(*l.Total))
			continue
		}
		if !eq(t, mustD(*l.Total)) {
			return "line-total", fmt.Sprintf("lines[%d]: sum %s − discounts + charges = %s but total is %s", i, *l.Sum, t, *l.Total), n
		}
		maxd := c
		if l.Item != nil && l.Item.Price != nil && decs(*l.Item.Price) > maxd {
			maxd = decs(*l.Item.Price)
		}
		for _, s := range []string{*l.Sum, *l.Total} {
			if decs(s) > maxd {
				return "decimals:lines", fmt.Sprintf("lines[%d]: %s has more decimals than the currency / item price (%d)", i, s, maxd), n
			}
		}
		sumLines = sumLines.Add(mustD(*l.Total))
	}
	t := d.Totals
	if t == nil {
		return "", "", n
	}
	n++
	if !eq(sumLines, mustD(t.Sum)) {
		return "document-sum", fmt.Sprintf("Σ line totals = %s but totals.sum = %s", sumLines, t.Sum), n
	}
	if len(d.Discounts) > 0 {
		s := dec.Zero(c)
		for _, x := range d.Discounts {
			s = s.Add(mustD(x.Amount))
		}
		n++
		if t.Discount == nil || !eq(s, mustD(*t.Discount)) {
			return "discount-sum", fmt.Sprintf("Σ discounts = %s but totals.discount = %v", s, strOrNil(t.Discount)), n
		}
	}
	if len(d.Charges) > 0 {
		s := dec.Zero(c)
		for _, x := range d.Charges {
			s = s.Add(mustD(x.Amount))
		}
		n++
		if t.Charge == nil || !eq(s, mustD(*t.Charge)) {
			return "charge-sum", fmt.Sprintf("Σ charges = %s but totals.charge = %v", s, strOrNil(t.Charge)), n
		}
	}
	tot := mustD(t.Sum)
	if t.Discount != nil {
		tot = tot.Sub(mustD(*t.Discount))
	}
	if t.Charge != nil {
		tot = tot.Add(mustD(*t.Charge))
	}
	if t.TaxIncluded != nil {
		tot = tot.Sub(mustD(*t.TaxIncluded))
	}
	n++
	if !eq(tot, mustD(t.Total)) {
		return "total", fmt.Sprintf("sum − discount + charge − tax_included = %s but totals.total = %s", tot, t.Total), n
	}
	taxSum := dec.Zero(c)
	if t.Taxes != nil {
		for _, ct := range t.Taxes.Categories {
			ca := dec.Zero(c)
			var cs *dec.D
			for _, rt := range ct.Rates {
				n++
				if rt.Percent != nil {
					want := dec.RoundRat(mustD(rt.Base).Mul(mustD(*rt.Percent)).Rat(), c)
					if !eq(want, mustD(rt.Amount)) {
						return "rate-amount", fmt.Sprintf("%s: %s of base %s is %s but amount is %s", ct.Code, *rt.Percent, rt.Base, want, rt.Amount), n
					}
					if rt.Surcharge != nil {
						ws := dec.RoundRat(mustD(rt.Base).Mul(mustD(rt.Surcharge.Percent)).Rat(), c)
						if !eq(ws, mustD(rt.Surcharge.Amount)) {
							return "rate-surcharge", fmt.Sprintf("%s: surcharge %s of base %s is %s but amount is %s", ct.Code, rt.Surcharge.Percent, rt.Base, ws, rt.Surcharge.Amount), n
						}
						if cs == nil {
							z := dec.Zero(c)
							cs = &z
						}
						x := cs.Add(mustD(rt.Surcharge.Amount))
						cs = &x
					}
				} else if !mustD(rt.Amount).IsZero() {
					return "exempt-amount", fmt.Sprintf("%s: exempt row has amount %s", ct.Code, rt.Amount), n
				}
				ca = ca.Add(mustD(rt.Amount))
				for _, s := range []string{rt.Base, rt.Amount} {
					if decs(s) > c {
						return "decimals:taxes", s, n
					}
				}
			}
			n++
			if !eq(ca, mustD(ct.Amount)) {
				return "category-sum", fmt.Sprintf("%s: Σ rate amounts = %s but category amount = %s", ct.Code, ca, ct.Amount), n
			}
			if cs != nil {
				if ct.Surcharge == nil || !eq(*cs, mustD(*ct.Surcharge)) {
					return "category-surcharge", fmt.Sprintf("%s: Σ surcharges = %s but category surcharge = %v", ct.Code, cs, strOrNil(ct.Surcharge)), n
				}
			} else if ct.Surcharge != nil && !mustD(*ct.Surcharge).IsZero() {
				return "category-surcharge", fmt.Sprintf("%s: category surcharge %s without any rate surcharge", ct.Code, *ct.Surcharge), n
			}
			x := mustD(ct.Amount)
			if ct.Surcharge != nil {
				x = x.Add(mustD(*ct.Surcharge))
			}
			if ct.Retained {
				taxSum = taxSum.Sub(x)
			} else {
				taxSum = taxSum.Add(x)
			}
		}
		n++
		if !eq(taxSum, mustD(t.Taxes.Sum)) {
			return "tax-sum", fmt.Sprintf("Σ± categories = %s but taxes.sum = %s", taxSum, t.Taxes.Sum), n
		}
		if t.TaxIncluded != nil {
			// the included tax is the presented amount of its category
		}
	}
	n++
	if !eq(taxSum, mustD(t.Tax)) {
		return "tax", fmt.Sprintf("taxes.sum = %s but totals.tax = %s", taxSum, t.Tax), n
	}
	n++
	if !eq(mustD(t.Total).Add(mustD(t.Tax)), mustD(t.TotalWithTax)) {
		return "total-with-tax", fmt.Sprintf("total %s + tax %s ≠ total_with_tax %s", t.Total, t.Tax, t.TotalWithTax), n
	}
	pay := mustD(t.TotalWithTax)
	if t.Rounding != nil {
		pay = pay.Add(mustD(*t.Rounding))
	}
	n++
	if !eq(pay, mustD(t.Payable)) {
		return "payable", fmt.Sprintf("total_with_tax + rounding = %s but payable = %s", pay, t.Payable), n
	}
	if d.Payment != nil && len(d.Payment.Advances) > 0 {
		a := dec.Zero(c)
		for _, x := range d.Payment.Advances {
			a = a.Add(mustD(x.Amount))
			if decs(x.Amount) > c {
				return "decimals:advances", x.Amount, n
			}
		}
		n++
		if derived && t.Advances != nil {
			a = mustD(*t.Advances)
		}
		if t.Advances == nil || !eq(a, mustD(*t.Advances)) {
			return "advance-sum", fmt.Sprintf("Σ advances = %s but totals.advance = %v", a, strOrNil(t.Advances)), n
		}
		n++
		if t.Due == nil || !eq(mustD(t.Payable).Sub(a), mustD(*t.Due)) {
			return "due", fmt.Sprintf("payable %s − advance %s ≠ due %v", t.Payable, a, strOrNil(t.Due)), n
		}
	}
	if d.Payment != nil && d.Payment.Terms != nil {
		for _, x := range d.Payment.Terms.DueDates {
			if decs(x.Amount) > c {
				return "decimals:due-dates", x.Amount, n
			}
		}
	}
	for name, s := range map[string]*string{"sum": &t.Sum, "discount": t.Discount, "charge": t.Charge, "tax_included": t.TaxIncluded, "total": &t.Total, "tax": &t.Tax, "total_with_tax": &t.TotalWithTax, "payable": &t.Payable, "advance": t.Advances, "due": t.Due} {
		if s != nil && decs(*s) > c {
			return "decimals:totals." + name, *s, n
		}
	}
	return "", "", n
}

func strOrNil(s *string) string {
	if s == nil {
		return "absent"
	}
	return *s
}

func runC03(c *Ctx) {
	c.R.Rule("documents calculated under the 'currency' rule (explicit, or by regime default — Greece): synthesised with the C01 grammar restricted to the stated domain (fixed discount/charge/advance amounts, explicit bases and charge rates at the currency's precision; prices with up to six decimals; tax-included on/off) + every corpus document recalculated with tax.rounding=currency; non-trivial = document has ≥2 lines or a discount/charge/tax/advance; distinct by input")
	c.R.Assume("no reference calculation: only the identities of the statement, evaluated in exact decimals on the presented JSON figures")
	w := getWorld()
	var check func(origin string, in []byte, feats map[string]bool) (ok bool, nontriv bool)
	// recalculation of a calculated document from which one kind of row was
	// removed: the figures computed before must not survive
	recheck := func(origin string, out []byte, pick func(int) int) {
		if strings.HasPrefix(origin, "recalculated") {
			return
		}
		if name, ed := staleEdit(out, pick); ed != nil {
			c.R.Count("recalculated_after_removing:"+name, 1)
			check("recalculated after removing "+name+" ("+origin+")", ed, nil)
		}
	}
	check = func(origin string, in []byte, feats map[string]bool) (ok bool, nontriv bool) {
		var out []byte
		var err error
		p, pst := Safely(func() {
			env, e := gx.EnvelopDoc(in)
			err = e
			if e == nil {
				out, err = json.Marshal(env.Document)
			}
		})
		if p != nil {
			c.R.Count("panics", 1)
			c.R.Fail("panic:"+panicSite(pst), fmt.Sprintf("%s: calculation panicked: %v", origin, p), map[string]any{"origin": origin, "input": json.RawMessage(in)})
			return false, false
		}
		if err != nil {
			c.R.Count("calculation_refused", 1)
			return false, false
		}
		d := new(c03doc)
		if json.Unmarshal(out, d) != nil {
			return false, false
		}
		cd, okc := w.decimals(d.Currency)
		if !okc {
			return false, false
		}
		name, det, n := c03identities(d, cd)
		c.R.Count("identities_evaluated", int64(n))
		if name != "" {
			cl := "identity:" + name
			if len(name) > 9 && name[:9] == "decimals:" {
				cl = name
			}
			c.R.Fail(cl, fmt.Sprintf("%s: %s", origin, det), map[string]any{"origin": origin, "input": json.RawMessage(in), "output": json.RawMessage(out)})
		}
		recheck(origin, out, func(n int) int { return int(ev.HashBytes(in) % uint64(n)) })
		// the other entry point that produces totals: removing the included taxes of
		// an invoice; its result presents figures too, and they must re-add as well
		if bytes.Contains(out, []byte(`"prices_include"`)) && !strings.HasPrefix(origin, "recalculated") {
			var out2 []byte
			var rerr error
			if p, _ := Safely(func() {
				inv, _, e := calcInvoice(in)
				if rerr = e; e == nil {
					if rerr = inv.RemoveIncludedTaxes(); rerr == nil {
						out2, rerr = json.Marshal(inv)
					}
				}
			}); p == nil && rerr == nil {
				d2 := new(c03doc)
				if json.Unmarshal(out2, d2) == nil {
					c.R.Count("identities_after_RemoveIncludedTaxes", 1)
					if name, det, _ := c03identitiesOpt(d2, cd, true); name != "" {
						c.R.Fail("identity-after-remove-included:"+name, fmt.Sprintf("%s, after RemoveIncludedTaxes: %s", origin, det), map[string]any{"origin": origin, "input": json.RawMessage(in), "output": json.RawMessage(out2)})
					}
				}
			}
		}
		// a third entry point that produces totals: the invoice converted into another
		// currency with an exchange rate it declares (Invoice.ConvertInto recalculates
		// under the same rule); the converted document presents figures that must
		// re-add at the precision of the new currency
		if bytes.Contains(out, []byte(`"https://gobl.org/draft-0/bill/invoice"`)) && !strings.HasPrefix(origin, "recalculated") {
			h := ev.HashBytes(in)
			targets := []string{"EUR", "USD", "JPY", "KWD", "GBP", "MXN"}
			target := targets[h%uint64(len(targets))]
			if target == d.Currency {
				target = targets[(h+1)%uint64(len(targets))]
			}
			rate := []string{"0.8731", "151.2345", "1.0734", "0.30712", "19.99", "1.000001", "0.0065"}[(h/7)%7]
			if n, perr := jmut.Parse(in); perr == nil {
				xr := n.Get("exchange_rates")
				if xr == nil || xr.K != jmut.Arr {
					xr = jmut.Ar()
					n.Set("exchange_rates", xr)
				}
				xr.A = append(xr.A, jmut.O(jmut.Member{Key: "from", Val: jmut.S(d.Currency)}, jmut.Member{Key: "to", Val: jmut.S(target)}, jmut.Member{Key: "amount", Val: jmut.S(rate)}))
				var out3 []byte
				var cerr error
				if p, _ := Safely(func() {
					inv, _, e := calcInvoice(n.Bytes())
					if cerr = e; e == nil {
						var conv *bill.Invoice
						if conv, cerr = inv.ConvertInto(currency.Code(target)); cerr == nil {
							out3, cerr = json.Marshal(conv)
						}
					}
				}); p != nil {
					c.R.Fail("panic:convert-into", fmt.Sprintf("%s: ConvertInto(%s) panicked: %v", origin, target, p), map[string]any{"origin": origin, "input": json.RawMessage(n.Bytes())})
				} else if cerr != nil {
					c.R.Count("conversions_refused", 1)
				} else {
					d3 := new(c03doc)
					if ct, okt := w.decimals(target); okt && json.Unmarshal(out3, d3) == nil && d3.Currency == target {
						// the library's arithmetic is exact only while operands and intermediates
						// fit 2^52 units (C05); a conversion can leave that domain (× 151 into a
						// three-decimal currency): such documents are counted, not judged
						huge := false
						if d3.Totals != nil {
							lim := dec.New(1_000_000_000_000, 0)
							figs := []string{d3.Totals.Sum, d3.Totals.Total, d3.Totals.Payable}
							if d3.Totals.Taxes != nil {
								for _, ct3 := range d3.Totals.Taxes.Categories {
									for _, rt := range ct3.Rates {
										figs = append(figs, rt.Base)
									}
								}
							}
							for _, f := range figs {
								if v, ok := dec.Parse(f); ok {
									u := dec.D{U: new(big.Int).Abs(v.U), E: 0}
									if u.Cmp(lim) > 0 {
										huge = true
									}
								}
							}
						}
						if huge {
							c.R.Count("conversions_beyond_the_exact_domain(not_judged)", 1)
						} else if c.R.Count("identities_after_ConvertInto", 1); true {
							if name, det, _ := c03identitiesOpt(d3, ct, true, true); name != "" {
								c.R.Fail("identity-after-convert-into:"+name, fmt.Sprintf("%s, after ConvertInto(%s at %s): %s", origin, target, rate, det), map[string]any{"origin": origin, "input": json.RawMessage(n.Bytes()), "output": json.RawMessage(out3)})
							}
						}
					}
				}
			}
		}
		return true, len(d.Lines) > 1 || len(d.Discounts) > 0 || len(d.Charges) > 0 || (d.Totals != nil && d.Totals.Taxes != nil)
	}
	// corpus with the rule forced to currency
	var corp []corpus.Item
	for _, it := range corpus.Golden() {
		if it.Type == "bill/invoice" || it.Type == "bill/order" || it.Type == "bill/delivery" {
			corp = append(corp, it)
		}
	}
	c.Parallel(len(corp), func(i int) {
		doc, err := gx.DocJSON(corp[i].Data)
		if err != nil {
			return
		}
		n, err := jmut.Parse(doc)
		if err != nil {
			return
		}
		tx := n.Get("tax")
		if tx == nil {
			tx = jmut.O()
			n.Set("tax", tx)
		}
		tx.Set("rounding", jmut.S("currency"))
		// fixed amounts of the corpus are at currency precision already
		if ok, nt := check(corp[i].Rel, n.Bytes(), nil); ok {
			c.R.Count("corpus_documents_checked", 1)
			c.R.Case(nt, ev.HashBytes(n.Bytes()))
		}
	})
	n := c.N(8000, 300000)
	chunks := 64
	counts := make([]map[string]int64, chunks)
	c.Parallel(chunks, func(ci int) {
		rng := c.Rand(uint64(ci))
		g := gen.New(rng, w.defs)
		fc := map[string]int64{}
		counts[ci] = fc
		for k := 0; k < n/chunks; k++ {
			p := gen.Profile{Schema: []string{"bill/invoice", "bill/invoice", "bill/order", "bill/delivery"}[rng.IntN(4)], CurrencyOnly: true, Rule: "currency", MaxLines: c.N(12, 30), Preset: true}
			if rng.IntN(6) == 0 {
				p.Rule = ""
				p.Regimes = []string{"EL"} // currency rule by regime default
			}
			d := g.Document(p)
			if d.Rule == "precise" {
				continue
			}
			ok, nt := check("generated", d.JSON, d.Features)
			c.R.Case(ok && nt, ev.HashBytes(d.JSON))
			if ok {
				fc["documents"]++
				for f := range d.Features {
					fc["feature:"+f]++
				}
			}
			if k == 0 && ci < 3 {
				c.R.Sample(map[string]any{"input": json.RawMessage(d.JSON), "features": featureList(d.Features)})
			}
		}
	})
	tot := map[string]int64{}
	for _, fc := range counts {
		for k, v := range fc {
			tot[k] += v
		}
	}
	var keys []string
	for k := range tot {
		keys = append(keys, k)
	}
	sort.Strings(keys)
	for _, k := range keys {
		c.R.Count(k, tot[k])
	}
	c.Require("documents", "identities_evaluated", "identities_after_RemoveIncludedTaxes", "identities_after_ConvertInto", "recalculated_after_removing:charges", "feature:preset-rounding")
}
