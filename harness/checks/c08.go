package checks

import (
	"encoding/json"
	"fmt"
	"github.com/invopop/gobl/dsig"
	"math"
	"os"
	"path/filepath"
	"regexp"
	"sort"
	"strconv"
	"strings"
	"time"

	"github.com/invopop/gobl"

	"verif/internal/corpus"
	"verif/internal/ev"
	"verif/internal/gx"
	"verif/internal/jmut"
)

// C08 — the header digest makes every change to the document evident.
//
// Oracle: Envelope.Validate() and its error key, head.dig. Edits are logical
// by construction (the harness decides what a change is, not the code under
// test): every leaf altered within its type, every member removed, known
// optional members added, array elements swapped. Content-preserving
// re-encodings must keep validating with the same digest.

func init() { Register("C08", runC08) }

var (
	reAmount = regexp.MustCompile(`^-?[0-9]+(\.[0-9]+)?$`)
	rePct    = regexp.MustCompile(`^-?[0-9]+(\.[0-9]+)?%$`)
	reDate   = regexp.MustCompile(`^\d{4}-\d{2}-\d{2}$`)
	reUUID   = regexp.MustCompile(`^[0-9a-fA-F]{8}-[0-9a-fA-F]{4}-[0-9a-fA-F]{4}-[0-9a-fA-F]{4}-[0-9a-fA-F]{12}$`)
)

// alterLeaf changes a leaf value within its type. kind names the edit.
func alterLeaf(n *jmut.Node) (*jmut.Node, string) {
	switch n.K {
	case jmut.Bool:
		return jmut.Bl(!n.B), "bool-flip"
	case jmut.Num:
		if strings.ContainsAny(n.Num, ".eE") {
			// the smallest possible change: the neighbouring double
			if v, err := strconv.ParseFloat(n.Num, 64); err == nil {
				lit := strconv.FormatFloat(math.Nextafter(v, math.Inf(1)), 'g', -1, 64)
				if !strings.ContainsAny(lit, ".eE") {
					lit += ".0"
				}
				return jmut.N(lit), "float-next"
			}
			return jmut.N(n.Num + "1"), "number"
		}
		var v int64
		fmt.Sscan(n.Num, &v)
		return jmut.N(fmt.Sprint(v + 1)), "integer"
	case jmut.Str:
		s := n.S
		bumpLastDigit := func(s string) string {
			for i := len(s) - 1; i >= 0; i-- {
				if s[i] >= '0' && s[i] <= '9' {
					d := byte('0' + (s[i]-'0'+1)%10)
					return s[:i] + string(d) + s[i+1:]
				}
			}
			return s + "1"
		}
		switch {
		case rePct.MatchString(s):
			return jmut.S(bumpLastDigit(s)), "percent"
		case reAmount.MatchString(s):
			return jmut.S(bumpLastDigit(s)), "amount"
		case reDate.MatchString(s):
			if t, err := time.Parse("2006-01-02", s); err == nil {
				return jmut.S(t.AddDate(0, 0, 1).Format("2006-01-02")), "date"
			}
		case reUUID.MatchString(s):
			// change the last hex digit
			last := s[len(s)-1]
			repl := byte('0')
			if last == '0' {
				repl = '1'
			}
			return jmut.S(s[:len(s)-1] + string(repl)), "uuid"
		}
		// one character changed within its class
		b := []byte(s)
		for i, c := range b {
			switch {
			case c >= 'a' && c <= 'z':
				b[i] = 'a' + (c-'a'+1)%26
				return jmut.S(string(b)), "string"
			case c >= 'A' && c <= 'Z':
				b[i] = 'A' + (c-'A'+1)%26
				return jmut.S(string(b)), "string"
			case c >= '0' && c <= '9':
				b[i] = '0' + (c-'0'+1)%10
				return jmut.S(string(b)), "string"
			}
		}
		return jmut.S(s + "x"), "string"
	}
	return nil, ""
}

// optional members to add when absent, by path class of the parent object
var c08additions = map[string][]jmut.Member{
	"": {
		{Key: "meta", Val: jmut.O(jmut.Member{Key: "verif", Val: jmut.S("added")})},
		{Key: "notes", Val: jmut.Ar(jmut.O(jmut.Member{Key: "key", Val: jmut.S("general")}, jmut.Member{Key: "text", Val: jmut.S("added note")}))},
		{Key: "series", Val: jmut.S("ZZ")},
		{Key: "op_date", Val: jmut.S("2020-02-02")},
		{Key: "value_date", Val: jmut.S("2020-02-03")},
		{Key: "ordering", Val: jmut.O(jmut.Member{Key: "code", Val: jmut.S("PO-1")})},
	},
	"lines[]": {
		{Key: "notes", Val: jmut.Ar(jmut.O(jmut.Member{Key: "text", Val: jmut.S("line note")}))},
		{Key: "identifier", Val: jmut.O(jmut.Member{Key: "code", Val: jmut.S("ID1")})},
	},
	"lines[].item": {
		{Key: "ref", Val: jmut.S("REF-1")},
		{Key: "description", Val: jmut.S("added description")},
		{Key: "meta", Val: jmut.O(jmut.Member{Key: "k", Val: jmut.S("v")})},
		{Key: "unit", Val: jmut.S("h")},
	},
	"supplier": {{Key: "alias", Val: jmut.S("Alias")}, {Key: "meta", Val: jmut.O(jmut.Member{Key: "k", Val: jmut.S("v")})}},
	"customer": {{Key: "alias", Val: jmut.S("Alias")}, {Key: "meta", Val: jmut.O(jmut.Member{Key: "k", Val: jmut.S("v")})}},
	"totals":   {{Key: "rounding", Val: jmut.S("0.01")}},
	"payment":  {{Key: "terms", Val: jmut.O(jmut.Member{Key: "key", Val: jmut.S("instant")})}},
}

type c08edit struct {
	kind string
	path jmut.Path
	doc  *jmut.Node // edited document
}

func c08edits(doc *jmut.Node) []c08edit {
	var out []c08edit
	doc.Walk(func(p jmut.Path, x *jmut.Node) {
		if len(p) == 0 {
			// additions at the root
		} else {
			// removal of every member / element
			d := doc.Clone()
			if d.Remove(p) {
				out = append(out, c08edit{"remove", p, d})
			}
		}
		switch x.K {
		case jmut.Bool, jmut.Num, jmut.Str:
			if v, kind := alterLeaf(x); v != nil {
				d := doc.Clone()
				if d.Replace(p, v) {
					out = append(out, c08edit{"alter-" + kind, p, d})
				}
				if x.K == jmut.Num && x.Num != "" && strings.Trim(x.Num, "-0.eE+") != "" {
					// the same number with the other sign
					neg := "-" + x.Num
					if strings.HasPrefix(x.Num, "-") {
						neg = x.Num[1:]
					}
					d2 := doc.Clone()
					if d2.Replace(p, jmut.N(neg)) {
						out = append(out, c08edit{"alter-negate", p, d2})
					}
				}
				if kind == "string" && len(x.S) > 2 {
					// also change the last character, so that both ends of any special character are edited
					b := []rune(x.S)
					last := b[len(b)-1]
					if last == 'z' {
						b[len(b)-1] = 'y'
					} else {
						b[len(b)-1] = 'z'
					}
					d2 := doc.Clone()
					if d2.Replace(p, jmut.S(string(b))) {
						out = append(out, c08edit{"alter-string-tail", p, d2})
					}
				}
			}
		case jmut.Arr:
			// swap the first two elements that differ
			for i := 0; i+1 < len(x.A); i++ {
				if !jmut.Equal(x.A[i], x.A[i+1]) {
					d := doc.Clone()
					a := d.At(p)
					a.A[i], a.A[i+1] = a.A[i+1], a.A[i]
					out = append(out, c08edit{"swap", p, d})
					break
				}
			}
			// a null element put in front of / behind the others (a list with an empty
			// slot is another list; where the library tolerates such a slot the digest
			// has to tell the two apart)
			for _, front := range []bool{true, false} {
				d := doc.Clone()
				a := d.At(p)
				if front {
					a.A = append([]*jmut.Node{jmut.Nl()}, a.A...)
				} else {
					a.A = append(a.A, jmut.Nl())
				}
				out = append(out, c08edit{"null-element", p, d})
			}
			// one element said twice (first and last are tried)
			for _, i := range []int{0, len(x.A) - 1} {
				if i < 0 {
					continue
				}
				d := doc.Clone()
				a := d.At(p)
				a.A = append(append(append([]*jmut.Node{}, a.A[:i+1]...), a.A[i].Clone()), a.A[i+1:]...)
				out = append(out, c08edit{"repeat-element", p, d})
				if len(x.A) == 1 {
					break
				}
			}
		case jmut.Obj:
			for _, add := range c08additions[p.Class()] {
				if x.Get(add.Key) == nil {
					d := doc.Clone()
					d.At(p).Set(add.Key, add.Val.Clone())
					out = append(out, c08edit{"add-known-member", append(append(jmut.Path{}, p...), jmut.Elem{Key: add.Key, Idx: -1}), d})
				}
			}
			// a repeated member: the JSON reader keeps the last occurrence, so a second
			// occurrence with another value after the first is a change, and one before it is not
			if len(p) <= 1 {
				for mi, m := range x.M {
					var v2 *jmut.Node
					switch {
					case m.Key == "$schema" && m.Val.K == jmut.Str:
						other := "https://gobl.org/draft-0/org/party"
						if strings.HasSuffix(m.Val.S, "org/party") {
							other = "https://gobl.org/draft-0/org/item"
						}
						v2 = jmut.S(other)
					case m.Val.K == jmut.Str || m.Val.K == jmut.Num || m.Val.K == jmut.Bool:
						v2, _ = alterLeaf(m.Val)
					}
					if v2 == nil {
						continue
					}
					kp := append(append(jmut.Path{}, p...), jmut.Elem{Key: m.Key, Idx: -1})
					d := doc.Clone()
					o := d.At(p)
					o.M = append(o.M, jmut.Member{Key: m.Key, Val: v2.Clone()})
					out = append(out, c08edit{"repeat-member-after", kp, d})
					d2 := doc.Clone()
					o2 := d2.At(p)
					o2.M = append(append(append([]jmut.Member{}, o2.M[:mi]...), jmut.Member{Key: m.Key, Val: v2.Clone()}), o2.M[mi:]...)
					out = append(out, c08edit{"repeat-member-before", kp, d2})
				}
			}
			// a member the schema does not know (outside the claim: observed only)
			d := doc.Clone()
			d.At(p).Set("x_verif_unknown", jmut.S("1"))
			out = append(out, c08edit{"add-unknown-member", append(append(jmut.Path{}, p...), jmut.Elem{Key: "x_verif_unknown", Idx: -1}), d})
		}
	})
	return out
}

var c08key = dsig.NewES256Key()

func withDoc(env *jmut.Node, doc *jmut.Node) []byte {
	e := env.Clone()
	e.Set("doc", doc)
	return e.Bytes()
}

func validateBytes(b []byte) (env *gobl.Envelope, perr, verr error, pan any) {
	pan, _ = Safely(func() {
		env, perr = gx.ParseEnvelope(b)
		if perr == nil {
			verr = env.Validate()
		}
	})
	return
}

func runC08(c *Ctx) {
	c.R.Rule("for each selected golden envelope: every single edit of the serialised document (alter every leaf within its type, remove every member/element, swap array elements, add known optional members) and content-preserving re-encodings (member order, indentation, \\u escapes, bare numbers for amounts); non-trivial = the edit parsed so that validation and the digest comparison ran; distinct by (file, edit kind, path)")
	c.R.Assume("a member unknown to the schema is dropped by the parser before the digest is computed: not logical content (counted only); removing a $regime that parsing re-derives to the same value is a content-preserving re-encoding")
	items := corpus.Golden()
	if len(items) == 0 {
		c.R.Inconclusive("no-corpus")
		return
	}
	// quick: one envelope per document type and the largest invoice of each regime
	var sel []corpus.Item
	if c.Thorough {
		sel = items
	} else {
		byType := map[string]bool{}
		bigByRegime := map[string]corpus.Item{}
		for _, it := range items {
			if !byType[it.Type] {
				byType[it.Type] = true
				sel = append(sel, it)
			}
			if it.Type == "bill/invoice" {
				if cur, ok := bigByRegime[it.Regime]; !ok || len(it.Data) > len(cur.Data) {
					bigByRegime[it.Regime] = it
				}
			}
		}
		var regs []string
		for r := range bigByRegime {
			regs = append(regs, r)
		}
		sort.Strings(regs)
		for i, r := range regs {
			if i%2 == int(c.Seed%2) { // half of the regimes per seed parity, keeps quick short
				sel = append(sel, bigByRegime[r])
			}
		}
		// every addon is represented (its smallest envelope), and so is every distinct
		// list of two or more addons: what calculation derives from such lists must not
		// be re-derived when a received document is validated (§10.10)
		smallest := map[string]corpus.Item{}
		for _, it := range items {
			keys := append([]string{}, it.Addons...)
			if len(it.Addons) > 1 {
				keys = append(keys, strings.Join(it.Addons, "+"))
			}
			for _, k := range keys {
				if cur, ok := smallest[k]; !ok || len(it.Data) < len(cur.Data) {
					smallest[k] = it
				}
			}
		}
		var aks []string
		for k := range smallest {
			aks = append(aks, k)
		}
		sort.Strings(aks)
		have := map[string]bool{}
		for _, it := range sel {
			have[it.Rel] = true
		}
		for _, k := range aks {
			if it := smallest[k]; !have[it.Rel] {
				have[it.Rel] = true
				sel = append(sel, it)
			}
		}
	}
	// envelopes whose text fields carry characters that need care in canonical JSON
	hostile := []string{"Pay in 30 days\u2028to account", "first\u2029second", "tab\there \"quoted\" back\\slash", "emoji 😀 tail", "ctl\u0001\u001fend", "é ñ ü ß 日本", "<b>&amp;</b>", "del\u007f\u0080nbsp\u00a0x", "zw\u200bj\ufeffbom", "astral 𐀀 \U0010FFFF end", "a/b\\/c", "line\nbreak\r\nend"}
	for hi, it := range sel {
		if it.Type != "bill/invoice" || hi > 6 {
			continue
		}
		n, err := jmut.Parse(it.Data)
		if err != nil {
			continue
		}
		doc := n.Get("doc")
		notes := jmut.Ar()
		meta := jmut.O()
		for k, h := range hostile {
			var txt string
			if json.Unmarshal([]byte(`"`+h+`"`), &txt) != nil {
				txt = h
			}
			notes.A = append(notes.A, jmut.O(jmut.Member{Key: "key", Val: jmut.S("general")}, jmut.Member{Key: "text", Val: jmut.S(txt)}))
			meta.Set(fmt.Sprintf("k%d", k), jmut.S(txt))
		}
		doc.Set("notes", notes)
		doc.Set("meta", meta)
		// the only JSON floats a document can hold: coordinates, with every digit a double carries
		if sup := doc.Get("supplier"); sup != nil && sup.K == jmut.Obj {
			coords := func(lat, lon string) *jmut.Node {
				return jmut.O(jmut.Member{Key: "lat", Val: jmut.N(lat)}, jmut.Member{Key: "lon", Val: jmut.N(lon)})
			}
			addrs := sup.Get("addresses")
			if addrs == nil || addrs.K != jmut.Arr || len(addrs.A) == 0 {
				addrs = jmut.Ar(jmut.O(jmut.Member{Key: "locality", Val: jmut.S("Madrid")}, jmut.Member{Key: "country", Val: jmut.S("ES")}))
				sup.Set("addresses", addrs)
			}
			addrs.A[0].Set("coords", coords("40.41677541234567", "-3.7037901234567891"))
			addrs.A = append(addrs.A, jmut.O(jmut.Member{Key: "locality", Val: jmut.S("Elsewhere")}, jmut.Member{Key: "coords", Val: coords("0.1", "1.0e-7")}),
				jmut.O(jmut.Member{Key: "locality", Val: jmut.S("Far")}, jmut.Member{Key: "coords", Val: coords("-89.99999999999999", "179.99999999999997")}),
				jmut.O(jmut.Member{Key: "locality", Val: jmut.S("West")}, jmut.Member{Key: "coords", Val: coords("-0.5", "-2e-7")}),
				jmut.O(jmut.Member{Key: "locality", Val: jmut.S("Greenwich")}, jmut.Member{Key: "coords", Val: coords("51.5", "-0.07")}))
		}
		env, err := gx.ParseEnvelope(n.Bytes())
		if err != nil {
			continue
		}
		if p, _ := Safely(func() { err = env.Calculate() }); p != nil || err != nil {
			continue
		}
		b, _ := json.Marshal(env)
		sel = append(sel, corpus.Item{Path: it.Path, Rel: it.Rel + "#hostile-strings", Data: b, Type: it.Type, Regime: it.Regime})
		break
	}
	// a large envelope (several hundred lines, canonical form well over 64 KiB): the
	// digest covers all of it; edits are taken from its tail (the last line and the members behind the lines)
	for _, it := range sel {
		if it.Type != "bill/invoice" {
			continue
		}
		n, err := jmut.Parse(it.Data)
		if err != nil {
			continue
		}
		doc := n.Get("doc")
		ls := doc.Get("lines")
		if ls == nil || ls.K != jmut.Arr || len(ls.A) == 0 {
			continue
		}
		first := ls.A[0].Clone()
		first.Del("i")
		first.Del("sum")
		first.Del("total")
		ls.A = nil
		for k := 0; k < 300; k++ {
			l := first.Clone()
			if it2 := l.Get("item"); it2 != nil && it2.K == jmut.Obj {
				it2.Set("name", jmut.S(fmt.Sprintf("Item number %d of a long document, described at some length", k+1)))
			}
			ls.A = append(ls.A, l)
		}
		doc.Del("totals")
		doc.Del("payment")
		env, err := gx.ParseEnvelope(n.Bytes())
		if err != nil {
			continue
		}
		if p, _ := Safely(func() {
			if err = env.Calculate(); err == nil {
				err = env.Validate() // (without its payment details or with 300 lines an example may no longer be valid: take the next)
			}
		}); p != nil || err != nil {
			continue
		}
		b, _ := json.Marshal(env)
		if len(b) < 100_000 {
			continue
		}
		sel = append(sel, corpus.Item{Path: it.Path, Rel: it.Rel + "#large-document", Data: b, Type: it.Type, Regime: it.Regime})
		c.R.Count("large_documents", 1)
		break
	}
	c.R.Set("envelopes", len(sel))

	type job struct {
		it   corpus.Item
		env  *jmut.Node
		edit c08edit
	}
	var jobs []job
	for _, it := range sel {
		env, err := jmut.Parse(it.Data)
		if err != nil || env.Get("doc") == nil {
			continue
		}
		// the unedited envelope must validate, otherwise nothing can be said
		if _, perr, verr, pan := validateBytes(it.Data); perr != nil || verr != nil || pan != nil {
			c.R.Fail("golden-invalid:"+it.Rel, fmt.Sprintf("golden envelope does not validate: %v %v %v", perr, verr, pan), it.Rel)
			continue
		}
		if rd, ok := refDigestOfEnvelope(it.Data); ok {
			c.R.Count("golden_digests_compared_with_reference", 1)
			if hd := env.Get("head"); hd != nil && hd.Get("dig") != nil && hd.Get("dig").Get("val") != nil && hd.Get("dig").Get("val").S != rd {
				c.R.Fail("golden-digest-differs-from-reference", fmt.Sprintf("%s: header digest %s, reference canonical form of the document hashes to %s", it.Rel, hd.Get("dig").Get("val").S, rd), it.Rel)
			}
		}
		large := strings.HasSuffix(it.Rel, "#large-document")
		for _, e := range c08edits(env.Get("doc")) {
			if large {
				// the tail only: the last line and the members that sort behind the lines
				ps := e.path.String()
				if strings.HasPrefix(ps, "lines[") && !strings.HasPrefix(ps, "lines[299]") {
					continue
				}
				if top := e.path[0].Key; top < "lines" && top != "$addons" {
					continue // (members that sort in front of the lines sit in the first block of the canonical form, as on any small document)
				}
				if ps == "lines" {
					continue // (whole-array edits of 300 lines: covered on ordinary documents)
				}
			}
			jobs = append(jobs, job{it, env, e})
		}
		c.R.Count("docs:"+it.Type, 1)
	}

	cliBin := filepath.Join(ev.Root(), "bin", "gobl")
	if _, err := os.Stat(cliBin); err != nil {
		cliBin = ""
		c.R.Count("cli_binary_missing", 1)
	}
	cliTmp, _ := os.MkdirTemp("", "verif-c08-")
	defer os.RemoveAll(cliTmp)
	cliPub := filepath.Join(cliTmp, "pub.jwk")
	if pb, err := json.Marshal(c08key.Public()); err == nil {
		_ = os.WriteFile(cliPub, pb, 0o644)
	}
	c.Parallel(len(jobs), func(i int) {
		j := jobs[i]
		e := j.edit
		b := withDoc(j.env, e.doc)
		env, perr, verr, pan := validateBytes(b)
		cls := e.path.Class()
		id := ev.Hash(j.it.Rel, e.kind, e.path.String())
		if pan != nil {
			c.R.Count("panics_on_edit", 1) // C14's business
			c.R.Case(false, id)
			return
		}
		if perr != nil {
			c.R.Count("edits_unparseable:"+e.kind, 1)
			c.R.Case(false, id)
			return
		}
		c.R.Count("edits_parsed:"+e.kind, 1)
		wit := map[string]any{"file": j.it.Rel, "edit": e.kind, "path": e.path.String()}
		if e.kind == "add-unknown-member" {
			if verr == nil {
				c.R.Count("unknown_member_additions_not_detected(outside_claim)", 1)
			}
			c.R.Case(false, id)
			return
		}
		// repeated members: the harness knows the outcome from JSON's reading rule
		// (the last occurrence counts), whatever the library made of the text
		switch e.kind {
		case "repeat-member-after":
			c.R.Case(true, id)
			if verr == nil {
				c.R.Fail("undetected:repeat-member-after:"+cls, fmt.Sprintf("%s: a second %s member with another value after the first changes the document, but the envelope still validates", j.it.Rel, e.path), wit)
			}
			return
		case "repeat-member-before":
			c.R.Case(false, id)
			if verr != nil {
				c.R.Fail("reencode-rejected:repeat-member-before:"+cls, fmt.Sprintf("%s: an earlier %s member that the later one overrides leaves the document as it was, but validation fails: %v", j.it.Rel, e.path, verr), wit)
			}
			return
		}
		// did the logical content change? the parsed document re-serialised must differ from the original's
		origEnv, _ := gx.ParseEnvelope(j.it.Data)
		ob, _ := json.Marshal(origEnv.Document)
		// (the edited text is parsed once more for this: validation has already run on
		// env and must not be what maps an edit back to the original content, §10.10)
		nb, _ := json.Marshal(env.Document)
		if fresh, ferr := gx.ParseEnvelope(b); ferr == nil {
			nb, _ = json.Marshal(fresh.Document)
		}
		if string(ob) == string(nb) {
			// the parser maps the edit back to the same content (e.g. removed $regime re-derived,
			// removed member that is recomputed while parsing): content-preserving, must keep validating
			c.R.Count("edits_content_preserving_after_parse:"+e.kind+":"+cls, 1)
			if verr != nil {
				c.R.Fail("reencode-rejected:"+e.kind+":"+cls, fmt.Sprintf("edit %s at %s leaves the parsed document identical but validation fails: %v", e.kind, e.path, verr), wit)
			}
			c.R.Case(false, id)
			return
		}
		c.R.Case(true, id)
		if verr == nil {
			c.R.Fail("undetected:"+e.kind+":"+cls, fmt.Sprintf("%s: %s at %s changes the document but the envelope still validates", j.it.Rel, e.kind, e.path), wit)
			return
		}
		// the same edited bytes decoded into an envelope value that already held the
		// original (a decoder streaming envelopes into one variable, a pooled value):
		// stale members must not survive the second load
		if reused, rerr := gx.ParseEnvelope(j.it.Data); rerr == nil {
			var uerr, v2 error
			if p2, _ := Safely(func() {
				uerr = json.Unmarshal(b, reused)
				if uerr == nil {
					v2 = reused.Validate()
				}
			}); p2 == nil && uerr == nil && v2 == nil {
				c.R.Fail("undetected:reused-target:"+e.kind, fmt.Sprintf("%s: %s at %s is detected on a fresh decode but not when the edited envelope is decoded into a value that held the original", j.it.Rel, e.kind, e.path), wit)
			}
			c.R.Count("reused_target_decodes", 1)
		}
		// a sample through the other entry points that validate an envelope: the
		// `gobl validate` and `gobl verify` processes (the latter on a signed copy
		// whose header and signatures are left exactly as signed)
		if i%23 == 0 && cliBin != "" {
			f1 := filepath.Join(cliTmp, fmt.Sprintf("e-%d.json", i))
			_ = os.WriteFile(f1, b, 0o644)
			if out, err := runCmd(cliTmp, 60*time.Second, cliBin, "validate", f1); err == nil {
				c.R.Fail("undetected:cli-validate:"+e.kind, fmt.Sprintf("%s: %s at %s is rejected by Envelope.Validate but `gobl validate` accepts it: %s", j.it.Rel, e.kind, e.path, trunc(out)), wit)
			}
			c.R.Count("cli_validate_runs", 1)
			os.Remove(f1)
			if se, err := gx.ParseEnvelope(j.it.Data); err == nil {
				var serr error
				if p4, _ := Safely(func() { serr = se.Sign(c08key) }); p4 == nil && serr == nil {
					sb, _ := json.Marshal(se)
					if sn, err := jmut.Parse(sb); err == nil {
						f2 := filepath.Join(cliTmp, fmt.Sprintf("s-%d.json", i))
						_ = os.WriteFile(f2, withDoc(sn, e.doc), 0o644)
						if out, err := runCmd(cliTmp, 60*time.Second, cliBin, "verify", "-k", cliPub, f2); err == nil {
							c.R.Fail("undetected:cli-verify:"+e.kind, fmt.Sprintf("%s signed, then %s at %s without touching header or signatures: `gobl verify` accepts it: %s", j.it.Rel, e.kind, e.path, trunc(out)), wit)
						}
						if out, err := runCmd(cliTmp, 60*time.Second, cliBin, "validate", f2); err == nil {
							c.R.Fail("undetected:cli-validate-signed:"+e.kind, fmt.Sprintf("%s signed, then %s at %s: `gobl validate` accepts it: %s", j.it.Rel, e.kind, e.path, trunc(out)), wit)
						}
						c.R.Count("cli_verify_runs", 1)
						os.Remove(f2)
					}
				}
			}
		}
		key := gx.ErrKey(verr)
		c.R.Count("detected_with_key:"+key, 1)
		if key != "digest" {
			// acceptable only if the edited document is invalid on its own: give it a
			// matching digest (no recalculation) and validate again
			var dv error
			p2, _ := Safely(func() {
				d, err := env.Digest()
				if err != nil {
					dv = err
					return
				}
				env.Head.Digest = d
				dv = env.Validate()
			})
			if p2 == nil && dv == nil {
				c.R.Fail("wrong-key:"+e.kind+":"+cls, fmt.Sprintf("%s: %s at %s: edited document is valid on its own, but validation of the stale envelope reports key %q instead of digest: %v", j.it.Rel, e.kind, e.path, key, verr), wit)
			}
		}
		// the other way of recalculating: handing the extracted document back with Insert
		if i%7 == 0 {
			if env3, e3 := gx.ParseEnvelope(b); e3 == nil {
				var ierr, v3 error
				if p5, _ := Safely(func() {
					if ierr = env3.Insert(env3.Extract()); ierr == nil {
						v3 = env3.Validate()
					}
				}); p5 == nil && ierr == nil {
					c.R.Count("recalculated_through_insert", 1)
					if v3 != nil && gx.ErrKey(v3) == "digest" {
						c.R.Fail("stale-after-insert:"+e.kind, fmt.Sprintf("%s: %s at %s, then Insert(Extract()): the envelope still reports %v", j.it.Rel, e.kind, e.path, v3), wit)
					}
				}
			}
		}
		// after recalculating, a changed document must have a different digest
		env2, _ := gx.ParseEnvelope(b)
		var cerr error
		p3, _ := Safely(func() { cerr = env2.Calculate() })
		if p3 == nil && cerr == nil {
			rb, _ := json.Marshal(env2.Document)
			if string(rb) != string(ob) {
				c.R.Count("recalculated_changed", 1)
				if env2.Head.Digest.Value == origEnv.Head.Digest.Value {
					c.R.Fail("digest-collision:"+cls, fmt.Sprintf("%s: %s at %s: recalculated document differs but the digest is unchanged", j.it.Rel, e.kind, e.path), wit)
				}
				// and it is the digest the harness's own canonicaliser gives that document
				if eb, merr := json.Marshal(env2); merr == nil {
					if rd, ok := refDigestOfEnvelope(eb); ok {
						c.R.Count("recalculated_digests_compared_with_reference", 1)
						if rd != env2.Head.Digest.Value {
							c.R.Fail("digest-differs-from-reference:"+cls, fmt.Sprintf("%s: %s at %s, recalculated: header digest %s, reference canonical form hashes to %s", j.it.Rel, e.kind, e.path, env2.Head.Digest.Value, rd), wit)
						}
					}
				}
			} else {
				c.R.Count("recalculated_back_to_original", 1)
			}
		}
		if i%5000 == 0 {
			c.R.Sample(map[string]any{"file": j.it.Rel, "edit": e.kind, "path": e.path.String(), "error_key": key})
		}
	})

	// content-preserving re-encodings
	amountKeys := map[string]bool{"quantity": true, "price": true, "sum": true, "total": true, "amount": true, "base": true, "payable": true, "tax": true, "total_with_tax": true, "due": true, "advance": true}
	c.Parallel(len(sel), func(i int) {
		it := sel[i]
		env, err := jmut.Parse(it.Data)
		if err != nil {
			return
		}
		rng := c.Rand(uint64(9000 + i))
		orig, _ := gx.ParseEnvelope(it.Data)
		styles := map[string]jmut.Style{
			"compact":      {},
			"indent":       {Indent: true},
			"shuffle":      {Shuffle: rng},
			"escape":       {EscapeAll: true},
			"shuffle+esc":  {Shuffle: rng, EscapeAll: true, Indent: true},
			"bare-amounts": {BareNums: func(k, s string) bool { return amountKeys[k] && reAmount.MatchString(s) && json.Valid([]byte(s)) }},
		}
		for name, st := range styles {
			for rep := 0; rep < 3; rep++ {
				b := env.Encode(st)
				e2, perr, verr, pan := validateBytes(b)
				c.R.Count("reencodings:"+name, 1)
				if pan != nil || perr != nil || verr != nil {
					c.R.Fail("reencode-rejected:"+name, fmt.Sprintf("%s re-encoded (%s) no longer validates: parse=%v validate=%v panic=%v", it.Rel, name, perr, verr, pan), map[string]any{"file": it.Rel, "style": name, "bytes": string(b)})
					break
				}
				if d, err := e2.Digest(); err != nil || d.Value != orig.Head.Digest.Value {
					c.R.Fail("reencode-digest:"+name, fmt.Sprintf("%s re-encoded (%s) has another digest", it.Rel, name), map[string]any{"file": it.Rel, "style": name})
				}
				c.R.Case(true, ev.Hash(it.Rel, name, fmt.Sprint(rep)))
			}
		}
	})
	c.Require("large_documents", "recalculated_digests_compared_with_reference", "edits_parsed:alter-negate", "edits_parsed:null-element", "recalculated_through_insert", "detected_with_key:digest", "edits_parsed:alter-float-next", "reused_target_decodes", "cli_verify_runs", "reencodings:shuffle")
}
