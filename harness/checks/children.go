package checks

// Children maps a property id to the entry point of its isolated child
// process mode (`vcheck child <ID> args…`); the return value is the exit code.
var Children = map[string]func(args []string) int{}
