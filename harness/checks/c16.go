package checks

import (
	"bytes"
	"encoding/base64"
	"encoding/json"
	"fmt"
	"github.com/invopop/gobl/schema"
	"os"
	"os/exec"
	"path/filepath"
	"sort"
	"strings"
	"time"

	"github.com/invopop/gobl"
	"github.com/invopop/gobl/bill"
	"github.com/invopop/gobl/cbc"
	"github.com/invopop/gobl/head"

	"verif/internal/corpus"
	"verif/internal/defs"
	"verif/internal/ev"
	"verif/internal/gx"
	"verif/internal/jmut"
	"verif/internal/srv"
	"verif/internal/walk"
)

// C16 — correct/replicate yield a linked new document and leave the source intact.

func init() { Register("C16", runC16) }

type c16source struct {
	it      corpus.Item
	env     []byte
	variant string
	stamps  map[string]string
}

func cbcKey(s string) cbc.Key { return cbc.Key(s) }

type corrDef struct {
	types      map[string]bool
	extensions map[string]bool
	reason     bool
	stamps     []string
	copyTax    bool
}

// publishedCorrection merges the published correction tables of the regime and
// the active addons of a document (independent of Invoice.correctionDef).
func publishedCorrection(all *defs.All, regime string, addons []string) corrDef {
	cd := corrDef{types: map[string]bool{}, extensions: map[string]bool{}}
	add := func(list []defs.Correction) {
		for _, c := range list {
			if c.Schema != "bill/invoice" {
				continue
			}
			for _, t := range c.Types {
				cd.types[t] = true
			}
			for _, e := range c.Extensions {
				cd.extensions[e] = true
			}
			cd.reason = cd.reason || c.ReasonNeeded
			cd.stamps = append(cd.stamps, c.Stamps...)
			cd.copyTax = cd.copyTax || c.CopyTax
		}
	}
	if r := all.Regimes[regime]; r != nil {
		add(r.Corrections)
	}
	for _, a := range addons {
		if ad := all.Addons[a]; ad != nil {
			add(ad.Corrections)
		}
	}
	return cd
}

type c16opts struct {
	Type      string              `json:"type"`
	Reason    string              `json:"reason,omitempty"`
	Ext       map[string]string   `json:"ext,omitempty"`
	Series    string              `json:"series,omitempty"`
	IssueDate string              `json:"issue_date,omitempty"`
	CopyTax   bool                `json:"copy_tax,omitempty"`
	Stamps    []map[string]string `json:"stamps,omitempty"`
}

func str(n *jmut.Node, keys ...string) string {
	for _, k := range keys {
		if n == nil {
			return ""
		}
		n = n.Get(k)
	}
	if n == nil || n.K != jmut.Str {
		return ""
	}
	return n.S
}

func isV7(u string) bool { return len(u) == 36 && u[14] == '7' }

// checkCorrection verifies the facts of a returned correction against the source.
func checkCorrection(src, res *jmut.Node, o c16opts, cd corrDef, srcStamps map[string]string) (field, detail string) {
	sd, rd := src.Get("doc"), res.Get("doc")
	if rd == nil {
		return "doc", "result has no document"
	}
	if res.Get("sigs") != nil {
		return "sigs", "result carries signatures"
	}
	if res.Get("head").Get("stamps") != nil {
		return "head.stamps", "result header carries stamps"
	}
	hu := str(res, "head", "uuid")
	if hu == "" || hu == str(src, "head", "uuid") || !isV7(hu) {
		return "head.uuid", fmt.Sprintf("result header uuid %q (source %q) is not a new v7 identifier", hu, str(src, "head", "uuid"))
	}
	du := str(rd, "uuid")
	if du == "" || du == str(sd, "uuid") {
		return "doc.uuid", fmt.Sprintf("result document uuid %q vs source %q", du, str(sd, "uuid"))
	}
	if rd.Get("code") != nil {
		return "doc.code", "result document has a code: " + str(rd, "code")
	}
	if str(rd, "type") != o.Type {
		return "doc.type", fmt.Sprintf("result type %q, requested %q", str(rd, "type"), o.Type)
	}
	pre := rd.Get("preceding")
	if pre == nil || len(pre.A) != 1 {
		return "preceding", "result does not have exactly one preceding reference"
	}
	p := pre.A[0]
	for _, f := range [][2]string{{"uuid", str(sd, "uuid")}, {"series", str(sd, "series")}, {"code", str(sd, "code")}, {"issue_date", str(sd, "issue_date")}} {
		if str(p, f[0]) != f[1] {
			return "preceding." + f[0], fmt.Sprintf("preceding %s is %q, source has %q", f[0], str(p, f[0]), f[1])
		}
	}
	wantType := str(sd, "type")
	if str(p, "type") != wantType {
		return "preceding.type", fmt.Sprintf("preceding type %q, source type %q", str(p, "type"), wantType)
	}
	if str(p, "reason") != o.Reason {
		return "preceding.reason", fmt.Sprintf("preceding reason %q, requested %q", str(p, "reason"), o.Reason)
	}
	for k, v := range o.Ext {
		// "in the preceding or at the document level, according to the local rules"
		if str(p, "ext", k) != v && str(rd, "tax", "ext", k) != v {
			return "preceding.ext", fmt.Sprintf("requested extension %s=%s is carried neither in the preceding reference nor at document level", k, v)
		}
	}
	if e := p.Get("ext"); e != nil {
		for _, m := range e.M {
			if _, ok := o.Ext[m.Key]; !ok {
				return "preceding.ext", "preceding carries an extension nobody requested: " + m.Key
			}
		}
	}
	for _, prov := range cd.stamps {
		found := false
		if st := p.Get("stamps"); st != nil {
			for _, s := range st.A {
				if str(s, "prv") == prov && (str(s, "val") == srcStamps[prov] || (len(o.Stamps) > 0 && str(s, "val") == "OPTION-"+prov)) {
					found = true
				}
			}
		}
		if !found {
			return "preceding.stamps", "required stamp " + prov + " of the source is not carried in the preceding reference"
		}
	}
	hasTax := p.Get("tax") != nil
	srcHasTax := sd.Get("totals") != nil && sd.Get("totals").Get("taxes") != nil
	if o.CopyTax && srcHasTax && !hasTax {
		return "preceding.tax", "copy_tax requested but the preceding reference has no tax summary"
	}
	if o.CopyTax && srcHasTax && hasTax {
		// the reference recalculates its amounts from bases and percentages, so
		// only those (and the keys) are compared
		if a, b := taxRows(p.Get("tax")), taxRows(sd.Get("totals").Get("taxes")); !jmut.Equal(a, b) {
			return "preceding.tax", fmt.Sprintf("copy_tax requested: the preceding reference carries the rows %s, the source's tax totals have %s", a.Bytes(), b.Bytes())
		}
	}
	if !o.CopyTax && hasTax {
		return "preceding.tax", "preceding reference has a tax summary although copy_tax was not requested"
	}
	if o.Series != "" && str(rd, "series") != o.Series {
		return "doc.series", fmt.Sprintf("series %q requested, got %q", o.Series, str(rd, "series"))
	}
	if o.IssueDate != "" && str(rd, "issue_date") != o.IssueDate {
		return "doc.issue_date", fmt.Sprintf("issue date %q requested, got %q", o.IssueDate, str(rd, "issue_date"))
	}
	return "", ""
}

// taxRows reduces a tax summary to what identifies its rows: category, keys,
// extensions, bases and percentages (amounts and sums are derived from them).
func taxRows(t *jmut.Node) *jmut.Node {
	t = t.Clone()
	t.Del("sum")
	if cats := t.Get("categories"); cats != nil {
		for _, ct := range cats.A {
			if ct.K != jmut.Obj {
				continue
			}
			ct.Del("amount")
			ct.Del("surcharge")
			if rates := ct.Get("rates"); rates != nil {
				for _, rt := range rates.A {
					if rt.K != jmut.Obj {
						continue
					}
					rt.Del("amount")
					if sc := rt.Get("surcharge"); sc != nil && sc.K == jmut.Obj {
						sc.Del("amount")
					}
				}
			}
		}
	}
	return t
}

func aliasBetween(a, b any) string {
	aa := walk.Addresses(a)
	for addr, where := range walk.Addresses(b) {
		if w, ok := aa[addr]; ok {
			return w + " ⇄ " + where
		}
	}
	return ""
}

func runC16(c *Ctx) {
	c.R.Rule("every corpus invoice (given its code), plain and signed+stamped (stamps the published tables require, plus an unrelated one) × correction type {credit-note, corrective, debit-note, undefined} × option subsets {reason, each extension of the tables with a defined value / an undefined key, series, date, copy-tax} and Replicate, through the library; a sample through `gobl correct|replicate` processes and the /bulk actions. non-trivial = the correction was accepted (so the field oracle ran); distinct by (source, options)")
	c.R.Assume("allowed types, required reason and stamps, copy-tax come from data/regimes/*.json ∪ data/addons/*.json; a correction counts as accepted when Correct succeeds and the result validates (the CLI validates before answering); replica dates are compared with the UTC date read before and after the call")
	w := getWorld()
	invs := corpus.Invoices()
	key := c14key
	type source = c16source
	var sources []source
	for _, it := range invs {
		cd := publishedCorrection(w.defs, it.Regime, it.Addons)
		sources = append(sources, source{it, it.Data, "plain", map[string]string{}})
		// signed + stamped variant
		env, err := gx.ParseEnvelope(it.Data)
		if err != nil {
			continue
		}
		var serr error
		if p, _ := Safely(func() { serr = env.Sign(key) }); p != nil || serr != nil {
			continue
		}
		st := map[string]string{}
		for _, prov := range cd.stamps {
			st[prov] = "VAL-" + prov
			env.Head.AddStamp(&head.Stamp{Provider: cbcKey(prov), Value: st[prov]})
		}
		env.Head.AddStamp(&head.Stamp{Provider: "verif-unrelated", Value: "U-1"})
		b, _ := json.Marshal(env)
		sources = append(sources, source{it, b, "signed+stamped", st})
	}
	// sources whose series has small letters (a valid code): the reference of a
	// correction has to carry the series as the source has it
	nMixed := 0
	for i, it := range invs {
		if i%4 != 0 {
			continue
		}
		docB, err := gx.DocJSON(it.Data)
		if err != nil {
			continue
		}
		d, err := jmut.Parse(docB)
		if err != nil {
			continue
		}
		d.Set("series", jmut.S("Fa-2024b"))
		var b []byte
		var verr error
		if p, _ := Safely(func() {
			env, e := gx.EnvelopDoc(d.Bytes())
			if verr = e; e == nil {
				if verr = env.Validate(); verr == nil {
					b, verr = json.Marshal(env)
				}
			}
		}); p != nil || verr != nil {
			continue
		}
		if n, perr := jmut.Parse(b); perr != nil || n.Get("doc").Get("series") == nil || n.Get("doc").Get("series").S != "Fa-2024b" {
			continue // (a regime that rewrites the series itself)
		}
		sources = append(sources, source{it, b, "mixed-case-series", map[string]string{}})
		nMixed++
	}
	c.R.Set("sources_with_a_mixed_case_series", nMixed)
	// the same invoices issued in an earlier rate period (rates named by key
	// then resolve differently on the source's date and on the correction's)
	nOld := 0
	for _, it := range invs {
		docB, err := gx.DocJSON(it.Data)
		if err != nil {
			continue
		}
		orig, err := jmut.Parse(docB)
		if err != nil || orig.Get("totals") == nil {
			continue
		}
		for _, date := range []string{"2011-06-01", "2020-08-01", "2007-03-01"} {
			d := orig.Clone()
			d.Set("issue_date", jmut.S(date))
			d.Del("value_date")
			d.Del("op_date")
			d.Del("totals")
			var b []byte
			var verr error
			if p, _ := Safely(func() {
				env, e := gx.EnvelopDoc(d.Bytes())
				if verr = e; e == nil {
					if verr = env.Validate(); verr == nil {
						b, verr = json.Marshal(env)
					}
				}
			}); p != nil || verr != nil {
				continue
			}
			n, _ := jmut.Parse(b)
			if jmut.Equal(n.Get("doc").Get("totals").Get("taxes"), orig.Get("totals").Get("taxes")) {
				continue // same rate period
			}
			sources = append(sources, source{it, b, "old-dated:" + date, map[string]string{}})
			nOld++
			break
		}
	}
	c.R.Set("sources_in_an_earlier_rate_period", nOld)
	// sources that carry a rounding adjustment in their totals (the one member of
	// the totals that is given, not calculated): business content a replica keeps
	nRnd := 0
	for k, it := range invs {
		if k%3 != 0 {
			continue
		}
		docB, err := gx.DocJSON(it.Data)
		if err != nil {
			continue
		}
		d, err := jmut.Parse(docB)
		if err != nil || d.Get("totals") == nil {
			continue
		}
		cur := str(d, "currency")
		rnd := "0.03"
		if cur == "JPY" || cur == "CLP" || cur == "COP" {
			rnd = "3"
		}
		d.Set("totals", jmut.O(jmut.Member{Key: "rounding", Val: jmut.S(rnd)}))
		var b []byte
		var verr error
		if p, _ := Safely(func() {
			env, e := gx.EnvelopDoc(d.Bytes())
			if verr = e; e == nil {
				if verr = env.Validate(); verr == nil {
					b, verr = json.Marshal(env)
				}
			}
		}); p != nil || verr != nil {
			continue
		}
		sources = append(sources, source{it, b, "preset-rounding", map[string]string{}})
		nRnd++
	}
	c.R.Set("sources_with_a_rounding_adjustment", nRnd)
	type job struct {
		s source
		o c16opts
	}
	var jobs []job
	rng := c.Rand(1)
	for _, s := range sources {
		cd := publishedCorrection(w.defs, s.it.Regime, s.it.Addons)
		var exts []map[string]string
		exts = append(exts, nil)
		var ekeys []string
		for e := range cd.extensions {
			ekeys = append(ekeys, e)
		}
		sort.Strings(ekeys)
		for _, e := range ekeys {
			if v := firstExtValue(w.defs, e); v != "" {
				exts = append(exts, map[string]string{e: v})
			}
		}
		exts = append(exts, map[string]string{"zz-undefined-ext": "x"})
		for _, t := range []string{"credit-note", "corrective", "debit-note", "zz-undefined"} {
			for _, reason := range []string{"", "corrected by verif"} {
				for _, ext := range exts {
					base := c16opts{Type: t, Reason: reason, Ext: ext}
					withStamps := func(o c16opts) c16opts {
						// the caller supplies the stamps again, with other values
						for prov := range s.stamps {
							o.Stamps = append(o.Stamps, map[string]string{"prv": prov, "val": "OPTION-" + prov})
						}
						return o
					}
					if c.Thorough {
						// the full cross product of the remaining options
						for m := 0; m < 8; m++ {
							o := base
							if m&1 != 0 {
								o.Series = "CR"
							}
							if m&2 != 0 {
								o.IssueDate = "2031-03-04"
							}
							if m&4 != 0 {
								o.CopyTax = true
							}
							jobs = append(jobs, job{s, o})
							if len(s.stamps) > 0 {
								jobs = append(jobs, job{s, withStamps(o)})
							}
						}
						continue
					}
					o := base
					if len(s.stamps) > 0 && rng.IntN(2) == 0 {
						o = withStamps(o)
					}
					if strings.HasPrefix(s.variant, "old-dated") {
						o.CopyTax = true
						jobs = append(jobs, job{s, o})
						continue
					}
					switch rng.IntN(4) {
					case 0:
						o.Series = "CR"
					case 1:
						o.IssueDate = "2031-03-04"
					case 2:
						o.CopyTax = true
					}
					jobs = append(jobs, job{s, o})
				}
			}
		}
	}
	// quick: a deterministic sample
	if max := c.N(3000, 80000); len(jobs) > max {
		rng.Shuffle(len(jobs), func(i, j int) { jobs[i], jobs[j] = jobs[j], jobs[i] })
		jobs = jobs[:max]
	}
	c.R.Set("correction_requests", len(jobs))

	c.Parallel(len(jobs), func(i int) {
		j := jobs[i]
		cd := publishedCorrection(w.defs, j.s.it.Regime, j.s.it.Addons)
		ob, _ := json.Marshal(j.o)
		data := ob
		wit := func() map[string]any {
			return map[string]any{"source": j.s.it.Rel, "variant": j.s.variant, "options": j.o, "request": string(data)}
		}
		env, err := gx.ParseEnvelope(j.s.env)
		if err != nil {
			return
		}
		before, _ := json.Marshal(env)
		fpB, _ := walk.Fingerprint(env)
		var res *gobl.Envelope
		var cerr error
		// every third request carries members the options do not define (a client echoing
		// back an envelope's parts): they are no options, so the outcome is that of the
		// plain request and the source stays as it was
		if i%3 == 0 {
			var m map[string]json.RawMessage
			if json.Unmarshal(ob, &m) == nil {
				extras := [][2]string{
					{"head", `{"uuid":"0190a1b2-c3d4-7e5f-8a9b-0c1d2e3f4a5b","dig":{"alg":"sha256","val":"00"},"stamps":[{"prv":"verif-echo","val":"stale"}],"notes":"echoed header"}`},
					{"doc", `{"$schema":"https://gobl.org/draft-0/note/message","content":"echo"}`},
					{"sigs", `["eyJhbGciOiJFUzI1NiJ9.e30.AAAA"]`},
					{"$schema", `"https://gobl.org/draft-0/envelope"`},
					{"Head", `{"uuid":"0190a1b2-c3d4-7e5f-8a9b-0c1d2e3f4a5b","notes":"echoed header"}`},
				}
				x := extras[(i/3)%len(extras)]
				if _, dup := m[x[0]]; !dup {
					m[x[0]] = json.RawMessage(x[1])
					if b, merr := json.Marshal(m); merr == nil {
						data = b
						c.R.Count("requests_with_undefined_members", 1)
					}
				}
			}
		}
		if p, _ := Safely(func() { res, cerr = env.Correct(bill.WithData(json.RawMessage(data))) }); p != nil {
			c.R.Count("panics", 1)
			return
		}
		// the same options handed over as a struct and as individual option
		// functions must give the same correction (or the same refusal)
		{
			ways := map[string][]schema.Option{}
			co := new(bill.CorrectionOptions)
			if json.Unmarshal(ob, co) == nil {
				ways["WithOptions"] = []schema.Option{bill.WithOptions(co)}
				var fs []schema.Option
				okType := true
				switch j.o.Type {
				case "credit-note":
					fs = append(fs, bill.Credit)
				case "corrective":
					fs = append(fs, bill.Corrective)
				case "debit-note":
					fs = append(fs, bill.Debit)
				default:
					okType = false
				}
				if okType {
					if co.Reason != "" {
						fs = append(fs, bill.WithReason(co.Reason))
					}
					if co.Series != "" {
						fs = append(fs, bill.WithSeries(co.Series))
					}
					if co.IssueDate != nil {
						fs = append(fs, bill.WithIssueDate(*co.IssueDate))
					}
					if co.CopyTax {
						fs = append(fs, bill.WithCopyTax())
					}
					if len(co.Stamps) > 0 {
						fs = append(fs, bill.WithStamps(co.Stamps))
					}
					var eks []string
					for k := range co.Ext {
						eks = append(eks, k.String())
					}
					sort.Strings(eks)
					for _, k := range eks {
						fs = append(fs, bill.WithExtension(cbc.Key(k), co.Ext[cbc.Key(k)]))
					}
					ways["option functions"] = fs
				}
			}
			ref := "refused"
			if cerr == nil {
				rb0, _ := json.Marshal(res)
				ref = stableDoc(rb0)
			}
			for name, opts := range ways {
				env2, err := gx.ParseEnvelope(j.s.env)
				if err != nil {
					continue
				}
				var r2 *gobl.Envelope
				var e2 error
				if p, _ := Safely(func() { r2, e2 = env2.Correct(opts...) }); p != nil {
					c.R.Count("panics", 1)
					continue
				}
				got := "refused"
				if e2 == nil {
					rb2, _ := json.Marshal(r2)
					got = stableDoc(rb2)
				}
				c.R.Count("option_passing_ways_compared", 1)
				if got != ref {
					cls, det := "outcome", fmt.Sprintf("WithData: %v, %s: %v", cerr, name, e2)
					if got != "refused" && ref != "refused" {
						cls, det = firstJSONDiff([]byte(ref), []byte(got))
					}
					c.R.Fail("option-passing:"+strings.ReplaceAll(name, " ", "-")+":"+cls, fmt.Sprintf("%s (%s) corrected with %s: passing the options through %s gives a different result than through WithData: %s", j.s.it.Rel, j.s.variant, ob, name, det), wit())
				}
			}
		}
		after, _ := json.Marshal(env)
		fpA, _ := walk.Fingerprint(env)
		if !bytes.Equal(before, after) || fpA != fpB {
			cls, det := firstJSONDiff(before, after)
			c.R.Fail("source-changed:correct:"+cls, fmt.Sprintf("%s (%s): Correct changed the source envelope: %s (fingerprint %x→%x)", j.s.it.Rel, j.s.variant, det, fpB, fpA), wit())
		}
		id := ev.Hash(j.s.it.Rel, j.s.variant, string(ob))
		typeAllowed := len(cd.types) == 0 || cd.types[j.o.Type]
		if cerr != nil {
			c.R.Count("refused_by_correct", 1)
			c.R.Case(false, id)
			return
		}
		if a := aliasBetween(env, res); a != "" {
			c.R.Fail("alias:correct:"+pathClass(strings.SplitN(a, " ⇄ ", 2)[0]), fmt.Sprintf("%s (%s): the correction shares a mutable node with the source at %s", j.s.it.Rel, j.s.variant, a), wit())
		}
		// what the published tables require has to be refused by Correct itself, not
		// only by a later validation of what it returned
		if cd.reason && j.o.Reason == "" {
			c.R.Fail("not-refused-by-correct:"+j.s.it.Regime+":reason", fmt.Sprintf("%s: the tables require a reason, none was given, and Correct returned a correction", j.s.it.Rel), wit())
		}
		if !typeAllowed {
			c.R.Fail("not-refused-by-correct:"+j.s.it.Regime+":type", fmt.Sprintf("%s: correction type %q is not among %v and Correct returned a correction", j.s.it.Rel, j.o.Type, keysOf(cd.types)), wit())
		}
		if len(cd.stamps) > 0 && len(j.s.stamps) == 0 && len(j.o.Stamps) == 0 {
			c.R.Fail("not-refused-by-correct:"+j.s.it.Regime+":stamps", fmt.Sprintf("%s: the source carries none of the required stamps %v and Correct returned a correction", j.s.it.Rel, cd.stamps), wit())
		}
		var verr error
		Safely(func() { verr = res.Validate() })
		rb, _ := json.Marshal(res)
		sn, _ := jmut.Parse(j.s.env)
		rn, _ := jmut.Parse(rb)
		if field, det := checkCorrection(sn, rn, j.o, cd, j.s.stamps); field != "" {
			// stamps can only be carried when the source had them
			if !(field == "preceding.stamps" && len(j.s.stamps) == 0) {
				c.R.Fail("result:correct:"+field, fmt.Sprintf("%s (%s) corrected with %s: %s", j.s.it.Rel, j.s.variant, ob, det), wit())
			}
		}
		if verr != nil {
			c.R.Count("returned_but_invalid", 1)
			c.R.Case(false, id)
			return
		}
		c.R.Count("accepted", 1)
		c.R.Case(true, id)
		if !typeAllowed {
			c.R.Fail("accepted-disallowed:"+j.s.it.Regime+":type", fmt.Sprintf("%s: correction type %q accepted, the published tables allow %v", j.s.it.Rel, j.o.Type, keysOf(cd.types)), wit())
		}
		if cd.reason && j.o.Reason == "" {
			c.R.Fail("accepted-disallowed:"+j.s.it.Regime+":reason", fmt.Sprintf("%s: correction accepted without the reason the tables require", j.s.it.Rel), wit())
		}
		if len(cd.stamps) > 0 && len(j.s.stamps) == 0 {
			c.R.Fail("accepted-disallowed:"+j.s.it.Regime+":stamps", fmt.Sprintf("%s: correction accepted although the source carries none of the required stamps %v", j.s.it.Rel, cd.stamps), wit())
		}
		// an extension whose published key names the other kind of note (…credit… on a
		// debit note, …debit… on a credit note) does not meet what that type requires
		if len(j.o.Ext) > 0 && (j.o.Type == "credit-note" || j.o.Type == "debit-note") {
			mine, other := "credit", "debit"
			if j.o.Type == "debit-note" {
				mine, other = "debit", "credit"
			}
			hasMine, hasOther := false, false
			for k := range j.o.Ext {
				if strings.Contains(k, mine) {
					hasMine = true
				}
				if strings.Contains(k, other) && !strings.Contains(k, mine) {
					hasOther = true
				}
			}
			if hasOther && !hasMine {
				needsMine := false
				for e := range cd.extensions {
					if strings.Contains(e, mine) && !strings.Contains(e, other) {
						needsMine = true
					}
				}
				if needsMine {
					c.R.Fail("accepted-disallowed:"+j.s.it.Regime+":ext-of-other-type", fmt.Sprintf("%s: a %s was accepted with only the extension(s) %v, although the tables define a separate extension for that type", j.s.it.Rel, j.o.Type, j.o.Ext), wit())
				}
			}
		}
		if _, bad := j.o.Ext["zz-undefined-ext"]; bad {
			c.R.Fail("accepted-disallowed:"+j.s.it.Regime+":ext", fmt.Sprintf("%s: correction with an undefined extension key accepted", j.s.it.Rel), wit())
		}
		if i%211 == 0 {
			c.R.Sample(map[string]any{"source": j.s.it.Rel, "variant": j.s.variant, "options": j.o, "accepted": true})
		}
	})

	// Replicate
	c.Parallel(len(sources), func(i int) {
		s := sources[i]
		env, err := gx.ParseEnvelope(s.env)
		if err != nil {
			return
		}
		wit := map[string]any{"source": s.it.Rel, "variant": s.variant}
		before, _ := json.Marshal(env)
		fpB, _ := walk.Fingerprint(env)
		d0 := time.Now().UTC().Format("2006-01-02")
		var res *gobl.Envelope
		var rerr error
		if p, _ := Safely(func() { res, rerr = env.Replicate() }); p != nil {
			c.R.Count("panics", 1)
			return
		}
		d1 := time.Now().UTC().Format("2006-01-02")
		after, _ := json.Marshal(env)
		fpA, _ := walk.Fingerprint(env)
		if !bytes.Equal(before, after) || fpA != fpB {
			cls, det := firstJSONDiff(before, after)
			c.R.Fail("source-changed:replicate:"+cls, fmt.Sprintf("%s: Replicate changed the source envelope: %s", s.it.Rel, det), wit)
		}
		c.R.Case(rerr == nil, ev.Hash("rep", s.it.Rel, s.variant))
		if rerr != nil {
			c.R.Fail("refused-allowed:replicate", fmt.Sprintf("%s: Replicate of a valid invoice fails: %v", s.it.Rel, rerr), wit)
			return
		}
		c.R.Count("replications", 1)
		if a := aliasBetween(env, res); a != "" {
			c.R.Fail("alias:replicate:"+pathClass(strings.SplitN(a, " ⇄ ", 2)[0]), fmt.Sprintf("%s: the replica shares a mutable node with the source at %s", s.it.Rel, a), wit)
		}
		rb, _ := json.Marshal(res)
		sn, _ := jmut.Parse(s.env)
		rn, _ := jmut.Parse(rb)
		if f, det := checkReplica(sn, rn, d0, d1, strings.HasPrefix(s.variant, "old-dated")); f != "" {
			c.R.Fail("result:replicate:"+f, fmt.Sprintf("%s (%s): %s", s.it.Rel, s.variant, det), wit)
		}
	})

	c16entryPoints(c, sources[:min(len(sources), c.N(24, 146))])
	c.Require("accepted", "requests_with_undefined_members", "option_passing_ways_compared", "replications", "cli:correct-accepted", "cli:correct-type-by-flag", "replicate_entry_points_compared", "bulk:correct-accepted")
}

func checkReplica(src, res *jmut.Node, d0, d1 string, recalc bool) (field, detail string) {
	sd, rd := src.Get("doc"), res.Get("doc")
	if res.Get("sigs") != nil {
		return "sigs", "replica carries signatures"
	}
	if res.Get("head").Get("stamps") != nil {
		return "head.stamps", "replica header carries stamps"
	}
	if u := str(res, "head", "uuid"); u == "" || u == str(src, "head", "uuid") {
		return "head.uuid", "replica header uuid is not new"
	}
	if u := str(rd, "uuid"); u == "" || u == str(sd, "uuid") {
		return "doc.uuid", "replica document uuid is not new"
	}
	if rd.Get("code") != nil {
		return "doc.code", "replica has a code"
	}
	if d := str(rd, "issue_date"); d != d0 && d != d1 {
		return "doc.issue_date", fmt.Sprintf("replica issue date %q is not today's date (%s)", d, d0)
	}
	if rd.Get("value_date") != nil || rd.Get("op_date") != nil {
		return "doc.dates", "replica keeps the value or operation date"
	}
	a, b := sd.Clone(), rd.Clone()
	if recalc {
		// a source issued in another rate period: percentages named by key and
		// everything derived from them follow the replica's date, so the content
		// is compared with the source document recalculated for that date
		a.Set("issue_date", jmut.S(str(rd, "issue_date")))
		for _, k := range []string{"uuid", "code", "value_date", "op_date", "totals"} {
			a.Del(k)
		}
		var eb []byte
		if p, _ := Safely(func() {
			if env, err := gx.EnvelopDoc(a.Bytes()); err == nil {
				eb, _ = json.Marshal(env)
			}
		}); p != nil || eb == nil {
			return "", ""
		}
		en, _ := jmut.Parse(eb)
		a = en.Get("doc")
	}
	for _, n := range []*jmut.Node{a, b} {
		for _, k := range []string{"uuid", "code", "issue_date", "value_date", "op_date"} {
			n.Del(k)
		}
	}
	if !jmut.Equal(a, b) {
		cls, det := firstJSONDiff(a.Bytes(), b.Bytes())
		return "content:" + cls, "business content differs: " + det
	}
	return "", ""
}

func keysOf(m map[string]bool) []string {
	var out []string
	for k := range m {
		out = append(out, k)
	}
	sort.Strings(out)
	return out
}

func firstExtValue(all *defs.All, key string) string {
	look := func(list []defs.KeyDef) string {
		for _, d := range list {
			if d.Key == key {
				if len(d.Values) > 0 {
					if d.Values[0].Code != "" {
						return d.Values[0].Code
					}
					return d.Values[0].Key
				}
				return "2024-01-01"
			}
		}
		return ""
	}
	for _, r := range all.RegimeList {
		if v := look(r.Extensions); v != "" {
			return v
		}
	}
	for _, a := range all.Addons {
		if v := look(a.Extensions); v != "" {
			return v
		}
	}
	return ""
}

// c16entryPoints: the same facts through the CLI processes and the bulk actions.
func c16entryPoints(c *Ctx, sources []c16source) {
	gbin := filepath.Join(ev.Root(), "bin", "gobl")
	if _, err := os.Stat(gbin); err != nil {
		c.R.Inconclusive("no-cli-binary")
		return
	}
	server, err := srv.Start(gbin)
	if err != nil {
		c.R.Inconclusive("server-start:" + err.Error())
		return
	}
	defer server.Stop()
	tmp, _ := os.MkdirTemp("", "verif-c16-")
	defer os.RemoveAll(tmp)
	w := getWorld()
	c.Parallel(len(sources), func(i int) {
		s := sources[i]
		cd := publishedCorrection(w.defs, s.it.Regime, s.it.Addons)
		o := c16opts{Type: "credit-note", Reason: "cli"}
		ob, _ := json.Marshal(o)
		file := filepath.Join(tmp, fmt.Sprintf("src-%d.json", i))
		_ = os.WriteFile(file, s.env, 0o644)
		sn, _ := jmut.Parse(s.env)
		wit := map[string]any{"source": s.it.Rel, "variant": s.variant}
		// process: gobl correct -d <options> file
		cmd := exec.Command(gbin, "correct", "-d", string(ob), file)
		var so, se bytes.Buffer
		cmd.Stdout, cmd.Stderr = &so, &se
		err := runWithTimeout(cmd, 60*time.Second)
		c.R.Count("cli:correct", 1)
		if err == nil {
			if rn, perr := jmut.Parse(so.Bytes()); perr == nil {
				if f, det := checkCorrection(sn, rn, o, cd, s.stamps); f != "" && !(f == "preceding.stamps" && len(s.stamps) == 0) {
					c.R.Fail("result:cli-correct:"+f, fmt.Sprintf("`gobl correct` on %s (%s): %s", s.it.Rel, s.variant, det), wit)
				}
				if len(cd.types) > 0 && !cd.types["credit-note"] {
					c.R.Fail("accepted-disallowed:"+s.it.Regime+":type", "`gobl correct` accepted a credit note the tables do not allow", wit)
				}
				c.R.Count("cli:correct-accepted", 1)
			}
		}
		// the same request said with the type flag and the rest as data, and the debit
		// pair: each way of saying it must be accepted or refused like the other
		{
			accepted := func(args ...string) (bool, []byte) {
				cm := exec.Command(gbin, append(append([]string{"correct"}, args...), file)...)
				var o2, e2 bytes.Buffer
				cm.Stdout, cm.Stderr = &o2, &e2
				return runWithTimeout(cm, 60*time.Second) == nil, o2.Bytes()
			}
			okFlag, outFlag := accepted("--credit", "-d", `{"reason":"cli"}`)
			c.R.Count("cli:correct-type-by-flag", 1)
			if okFlag != (err == nil) {
				c.R.Fail("option-passing:cli-credit-flag", fmt.Sprintf("`gobl correct --credit -d {reason}` on %s (%s) accepted=%v, but -d {type:credit-note,reason} accepted=%v", s.it.Rel, s.variant, okFlag, err == nil), wit)
			} else if okFlag {
				if rn, perr := jmut.Parse(outFlag); perr == nil {
					if f, det := checkCorrection(sn, rn, o, cd, s.stamps); f != "" && !(f == "preceding.stamps" && len(s.stamps) == 0) {
						c.R.Fail("result:cli-correct-flag:"+f, fmt.Sprintf("`gobl correct --credit -d {reason}` on %s (%s): %s", s.it.Rel, s.variant, det), wit)
					}
				}
			}
			okD1, _ := accepted("-d", `{"type":"debit-note","reason":"cli"}`)
			okD2, _ := accepted("--debit", "-d", `{"reason":"cli"}`)
			if okD1 != okD2 {
				c.R.Fail("option-passing:cli-debit-flag", fmt.Sprintf("`gobl correct --debit -d {reason}` on %s (%s) accepted=%v, but -d {type:debit-note,reason} accepted=%v", s.it.Rel, s.variant, okD2, okD1), wit)
			}
		}
		if fb, _ := os.ReadFile(file); !bytes.Equal(fb, s.env) {
			c.R.Fail("source-changed:cli", "`gobl correct` rewrote its input file", wit)
		}
		// process: gobl replicate file
		cmd = exec.Command(gbin, "replicate", file)
		so.Reset()
		se.Reset()
		cmd.Stdout, cmd.Stderr = &so, &se
		d0 := time.Now().UTC().Format("2006-01-02")
		err = runWithTimeout(cmd, 60*time.Second)
		d1 := time.Now().UTC().Format("2006-01-02")
		c.R.Count("cli:replicate", 1)
		if err == nil {
			if rn, perr := jmut.Parse(so.Bytes()); perr == nil {
				if f, det := checkReplica(sn, rn, d0, d1, strings.HasPrefix(s.variant, "old-dated")); f != "" {
					c.R.Fail("result:cli-replicate:"+f, fmt.Sprintf("`gobl replicate` on %s: %s", s.it.Rel, det), wit)
				}
			}
		} else if len(s.stamps) == 0 {
			c.R.Count("cli:replicate-refused", 1)
		}
		// every entry point answers a replication like the library does
		libReplicates := false
		Safely(func() {
			if e0, perr := gx.ParseEnvelope(s.env); perr == nil {
				if rep, rerr := e0.Replicate(); rerr == nil && rep != nil {
					libReplicates = rep.Validate() == nil
				}
			}
		})
		c.R.Count("replicate_entry_points_compared", 1)
		if (err == nil) != libReplicates {
			c.R.Fail("entry-point:cli-replicate", fmt.Sprintf("`gobl replicate` on %s (%s) accepted=%v, the library's Replicate (result validated) accepted=%v: %s", s.it.Rel, s.variant, err == nil, libReplicates, trunc(se.String())), wit)
		}
		bulkReplicated := false
		// bulk actions
		var lines bytes.Buffer
		l1, _ := json.Marshal(map[string]any{"action": "correct", "req_id": "c", "payload": map[string]any{"data": base64.StdEncoding.EncodeToString(s.env), "options": base64.StdEncoding.EncodeToString(ob)}})
		l2, _ := json.Marshal(map[string]any{"action": "replicate", "req_id": "r", "payload": map[string]any{"data": base64.StdEncoding.EncodeToString(s.env)}})
		lines.Write(l1)
		lines.WriteByte('\n')
		lines.Write(l2)
		lines.WriteByte('\n')
		d0 = time.Now().UTC().Format("2006-01-02")
		resp, berr := server.PostStream("/bulk", &lines)
		if berr != nil {
			c.R.Count("bulk_transport_errors", 1)
			return
		}
		rs, _ := readBulk(resp.Body)
		resp.Body.Close()
		d1 = time.Now().UTC().Format("2006-01-02")
		for _, r := range rs {
			if r.IsFinal || (len(r.Error) > 0 && string(r.Error) != "null") {
				continue
			}
			rn, perr := jmut.Parse(r.Payload)
			if perr != nil {
				continue
			}
			switch r.ReqID {
			case "c":
				c.R.Count("bulk:correct-accepted", 1)
				if f, det := checkCorrection(sn, rn, o, cd, s.stamps); f != "" && !(f == "preceding.stamps" && len(s.stamps) == 0) {
					c.R.Fail("result:bulk-correct:"+f, fmt.Sprintf("bulk correct on %s (%s): %s", s.it.Rel, s.variant, det), wit)
				}
			case "r":
				bulkReplicated = true
				c.R.Count("bulk:replicate", 1)
				if f, det := checkReplica(sn, rn, d0, d1, strings.HasPrefix(s.variant, "old-dated")); f != "" {
					c.R.Fail("result:bulk-replicate:"+f, fmt.Sprintf("bulk replicate on %s: %s", s.it.Rel, det), wit)
				}
			}
		}
		if len(rs) > 0 && bulkReplicated != libReplicates {
			c.R.Fail("entry-point:bulk-replicate", fmt.Sprintf("bulk replicate on %s (%s) accepted=%v, the library's Replicate (result validated) accepted=%v", s.it.Rel, s.variant, bulkReplicated, libReplicates), wit)
		}
	})
}
