package checks

import (
	"github.com/invopop/gobl/num"
	"encoding/json"
	"fmt"
	"sort"
	"strings"

	"github.com/invopop/gobl/bill"

	"verif/internal/corpus"
	"verif/internal/dec"
	"verif/internal/ev"
	"verif/internal/gen"
	"verif/internal/gx"
	"verif/internal/jmut"
	"verif/internal/refcalc"
)

// C17 — totals are symmetric under negation and independent of line order.
//
// Relations between two executions of the real code, compared in exact
// decimals: Invert() gives the exact negation and inverting twice restores the
// figures; permuting rows changes nothing but order; RemoveIncludedTaxes()
// keeps the amount payable.

func init() { Register("C17", runC17) }

func calcInvoice(in []byte) (*bill.Invoice, *outDoc, error) {
	env, err := gx.EnvelopDoc(in)
	if err != nil {
		return nil, nil, err
	}
	inv, ok := env.Extract().(*bill.Invoice)
	if !ok {
		return nil, nil, fmt.Errorf("not an invoice")
	}
	od, err := viewInvoice(inv)
	return inv, od, err
}

func viewInvoice(inv *bill.Invoice) (*outDoc, error) {
	b, err := json.Marshal(inv)
	if err != nil {
		return nil, err
	}
	od := new(outDoc)
	return od, json.Unmarshal(b, od)
}

type figure struct {
	path string
	val  string
}

// figures flattens every amount a document presents that the statement talks
// about (line totals, tax amounts, document totals, advances).
func figures(d *outDoc) []figure {
	var out []figure
	add := func(p string, s *string) {
		if s != nil {
			out = append(out, figure{p, *s})
		} else {
			out = append(out, figure{p, "absent"})
		}
	}
	for i, l := range d.Lines {
		p := fmt.Sprintf("lines[%d]", i)
		add(p+".sum", l.Sum)
		add(p+".total", l.Total)
		for j, x := range l.Discounts {
			add(fmt.Sprintf("%s.discounts[%d].amount", p, j), sp(x.Amount))
		}
		for j, x := range l.Charges {
			add(fmt.Sprintf("%s.charges[%d].amount", p, j), sp(x.Amount))
		}
	}
	for i, x := range d.Discounts {
		add(fmt.Sprintf("discounts[%d].amount", i), sp(x.Amount))
	}
	for i, x := range d.Charges {
		add(fmt.Sprintf("charges[%d].amount", i), sp(x.Amount))
	}
	if d.Payment != nil {
		for i, a := range d.Payment.Advances {
			add(fmt.Sprintf("payment.advances[%d].amount", i), sp(a.Amount))
		}
	}
	if t := d.Totals; t != nil {
		add("totals.sum", sp(t.Sum))
		add("totals.discount", t.Discount)
		add("totals.charge", t.Charge)
		add("totals.tax_included", t.TaxIncluded)
		add("totals.total", sp(t.Total))
		add("totals.tax", sp(t.Tax))
		add("totals.total_with_tax", sp(t.TotalWithTax))
		add("totals.rounding", t.Rounding)
		add("totals.payable", sp(t.Payable))
		add("totals.advance", t.Advances)
		add("totals.due", t.Due)
		if t.Taxes != nil {
			add("totals.taxes.sum", sp(t.Taxes.Sum))
			for _, c := range t.Taxes.Categories {
				p := "totals.taxes." + c.Code
				add(p+".amount", sp(c.Amount))
				add(p+".surcharge", c.Surcharge)
				for _, r := range c.Rates {
					cb := refcalc.Combo{Cat: c.Code, Country: r.Country, Percent: r.Percent, Ext: r.Ext}
					if r.Surcharge != nil {
						cb.Surcharge = &r.Surcharge.Percent
					}
					q := p + "{" + refcalc.GroupKey(cb) + "}"
					add(q+".base", sp(r.Base))
					add(q+".amount", sp(r.Amount))
					if r.Surcharge != nil {
						add(q+".surcharge", sp(r.Surcharge.Amount))
					}
				}
			}
		}
	}
	return out
}

func pathClass(p string) string {
	var b strings.Builder
	depth := 0
	for _, r := range p {
		switch {
		case r == '[' || r == '{':
			depth++
			b.WriteString("[]")
		case r == ']' || r == '}':
			depth--
		case depth == 0:
			b.WriteRune(r)
		}
	}
	return b.String()
}

// relate compares two figure lists under a relation (negation or equality).
func relate(a, b []figure, negate bool) (path, detail string) {
	bm := map[string]string{}
	for _, f := range b {
		bm[f.path] = f.val
	}
	for _, f := range a {
		g, ok := bm[f.path]
		if !ok {
			return f.path, "missing in the transformed document"
		}
		if f.val == "absent" || g == "absent" {
			if f.val != g {
				return f.path, fmt.Sprintf("%s vs %s", f.val, g)
			}
			continue
		}
		x, y := mustD(f.val), mustD(g)
		if negate {
			x = x.Neg()
		}
		if x.Cmp(y) != 0 {
			return f.path, fmt.Sprintf("original %s, transformed %s", f.val, g)
		}
	}
	if len(a) != len(b) {
		return "(figure count)", fmt.Sprintf("%d vs %d figures", len(a), len(b))
	}
	return "", ""
}

func runC17(c *Ctx) {
	c.R.Rule("invoices from the C01 grammar (both rules, all feature classes incl. a preset totals.rounding) and the corpus invoices; for each: Invert, Invert again, 6 random row permutations and the full reversal, RemoveIncludedTaxes when prices include a tax; non-trivial = the document has ≥2 rows with different precisions or a constructed tie (asymmetric rounding or an order-dependent accumulator can show); distinct by input")
	c.R.Assume("relations between executions of the real code only; amounts compared by value in exact decimals; lines matched by their input identity, tax groups by (category, country, percentage, surcharge, extensions)")
	w := getWorld()
	type base struct {
		origin string
		in     []byte
		feats  map[string]bool
	}
	var bases []base
	for _, it := range corpus.Invoices() {
		if doc, err := gx.DocJSON(it.Data); err == nil {
			bases = append(bases, base{it.Rel, doc, map[string]bool{"corpus": true}})
		}
	}
	n := c.N(4000, 150000)
	rng0 := c.Rand(0)
	g0 := gen.New(rng0, w.defs)
	for i := 0; i < n; i++ {
		// every other document with many combos per row that collide in their groups
		d := g0.Document(gen.Profile{Schema: "bill/invoice", MaxLines: 8, Preset: true, FixedAtCur: true, TaxFocus: i%2 == 1})
		bases = append(bases, base{"generated", d.JSON, d.Features})
	}
	// invoices whose rows cancel out (total exactly zero) with prices including tax:
	// the removal of the included tax leaves residues on both signs
	{
		zr := c.Rand(77)
		for i := 0; i < c.N(300, 20000); i++ {
			q := 2 + zr.IntN(300)
			pr := dec.New(1+zr.Int64N(999), 2)
			tot := dec.New(pr.U.Int64()*int64(q), 2)
			rk := []string{"standard", "reduced", "super-reduced"}
			doc := fmt.Sprintf(`{"$schema":"https://gobl.org/draft-0/bill/invoice","uuid":"0190a1b2-c3d4-7e5f-8a9b-0c1d2e3f4a5b","code":"Z-%d","issue_date":"2024-06-01","currency":"EUR","tax":{"prices_include":"VAT"},"supplier":{"name":"A","tax_id":{"country":"ES","code":"B98602642"}},"lines":[{"quantity":"%d","item":{"name":"x","price":"%s"},"taxes":[{"cat":"VAT","rate":"%s"}]},{"quantity":"1","item":{"name":"y","price":"-%s"},"taxes":[{"cat":"VAT","rate":"%s"}]}]}`,
				i, q, pr.String(), rk[zr.IntN(3)], tot.String(), rk[zr.IntN(3)])
			bases = append(bases, base{"generated-zero-total", []byte(doc), map[string]bool{"prices-include": true}})
		}
	}
	c.Parallel(len(bases), func(i int) {
		b := bases[i]
		rng := c.Rand(uint64(100 + i))
		wit := func() map[string]any { return map[string]any{"origin": b.origin, "input": json.RawMessage(b.in)} }
		var inv *bill.Invoice
		var d0 *outDoc
		var err error
		if p, _ := Safely(func() { inv, d0, err = calcInvoice(b.in) }); p != nil || err != nil {
			c.R.Count("calculation_refused_or_panicked", 1)
			c.R.Case(false, ev.HashBytes(b.in))
			return
		}
		if d0.Totals == nil {
			c.R.Case(false, ev.HashBytes(b.in))
			return
		}
		// the reference tells whether the 2^52 domain is left (then nothing is promised)
		if r := runBill(b.in, 0); r.Ref != nil && r.Ref.OutOfDomain {
			c.R.Count("out_of_2^52_domain", 1)
			c.R.Case(false, ev.HashBytes(b.in))
			return
		}
		f0 := figures(d0)
		nontriv := b.feats["tie-constructed"] || b.feats["price-beyond-currency"] || b.feats["corpus"]
		c.R.Case(nontriv, ev.HashBytes(b.in))

		// (A) inversion
		var ierr error
		if p, st := Safely(func() { ierr = inv.Invert() }); p != nil {
			c.R.Fail("invert:panics", fmt.Sprintf("%s: Invert panicked: %v\n%s", b.origin, p, trunc(st)), wit())
		} else if ierr != nil {
			c.R.Fail("invert:fails", fmt.Sprintf("%s: Invert fails: %v", b.origin, ierr), wit())
		} else {
			c.R.Count("inversions", 1)
			d1, _ := viewInvoice(inv)
			if path, det := relate(f0, figures(d1), true); path != "" {
				c.R.Fail("invert:"+pathClass(path), fmt.Sprintf("%s: after Invert %s is not the exact negation: %s", b.origin, path, det), wit())
			}
			var i2 error
			if p, _ := Safely(func() { i2 = inv.Invert() }); p != nil || i2 != nil {
				c.R.Fail("double-invert:fails", fmt.Sprintf("%s: second Invert fails: %v %v", b.origin, i2, p), wit())
			} else {
				d2, _ := viewInvoice(inv)
				if path, det := relate(f0, figures(d2), false); path != "" {
					c.R.Fail("double-invert:"+pathClass(path), fmt.Sprintf("%s: inverting twice does not restore %s: %s", b.origin, path, det), wit())
				}
			}
		}

		// (C) permutations of lines, discounts and charges
		root, perr := jmut.Parse(b.in)
		if perr == nil {
			nPerm := 7
			for pi := 0; pi < nPerm; pi++ {
				r2 := root.Clone()
				perms := map[string][]int{}
				moved := false
				for _, key := range []string{"lines", "discounts", "charges"} {
					arr := r2.Get(key)
					if arr == nil || len(arr.A) < 2 {
						continue
					}
					idx := rng.Perm(len(arr.A))
					if pi == nPerm-1 { // full reversal
						for k := range idx {
							idx[k] = len(arr.A) - 1 - k
						}
					}
					na := make([]*jmut.Node, len(arr.A))
					for k, j := range idx {
						na[k] = arr.A[j]
						if k != j {
							moved = true
						}
					}
					arr.A = na
					perms[key] = idx
				}
				if !moved {
					continue
				}
				var dp *outDoc
				var cerr error
				if p, _ := Safely(func() { _, dp, cerr = calcInvoice(r2.Bytes()) }); p != nil || cerr != nil {
					c.R.Fail("permute:calculation-differs", fmt.Sprintf("%s: a permutation of the rows fails to calculate: %v %v", b.origin, cerr, p), map[string]any{"input": json.RawMessage(b.in), "permuted": json.RawMessage(r2.Bytes())})
					break
				}
				c.R.Count("permutations", 1)
				// map the permuted rows back to their original positions
				back := *dp
				if idx := perms["lines"]; idx != nil {
					back.Lines = make([]outLine, len(dp.Lines))
					for k, j := range idx {
						back.Lines[j] = dp.Lines[k]
					}
				}
				if idx := perms["discounts"]; idx != nil {
					back.Discounts = make([]outDocDC, len(dp.Discounts))
					for k, j := range idx {
						back.Discounts[j] = dp.Discounts[k]
					}
				}
				if idx := perms["charges"]; idx != nil {
					back.Charges = make([]outDocDC, len(dp.Charges))
					for k, j := range idx {
						back.Charges[j] = dp.Charges[k]
					}
				}
				fp := figures(&back)
				sortFigs := func(f []figure) []figure {
					o := append([]figure{}, f...)
					sort.Slice(o, func(a, b int) bool { return o[a].path < o[b].path })
					return o
				}
				if path, det := relate(sortFigs(f0), sortFigs(fp), false); path != "" {
					c.R.Fail("permute:"+pathClass(path), fmt.Sprintf("%s: reordering the rows changes %s: %s", b.origin, path, det), map[string]any{"input": json.RawMessage(b.in), "permuted": json.RawMessage(r2.Bytes())})
					break
				}
			}
		}

		// (D) removing included taxes keeps the amount payable
		if b.feats["prices-include"] || b.feats["corpus"] {
			inv2, dA, err := calcInvoice(b.in)
			if err == nil && inv2.Tax != nil && inv2.Tax.PricesInclude != "" {
				var rerr error
				if p, _ := Safely(func() { rerr = inv2.RemoveIncludedTaxes() }); p != nil {
					c.R.Fail("remove-included:panics", fmt.Sprintf("%s: %v", b.origin, p), wit())
				} else if rerr != nil {
					c.R.Count("remove_included_refused", 1)
				} else {
					dB, _ := viewInvoice(inv2)
					c.R.Count("remove_included_runs", 1)
					if dB.Totals == nil || mustD(dB.Totals.Payable).Cmp(mustD(dA.Totals.TotalWithTax)) != 0 {
						pb := "absent"
						if dB.Totals != nil {
							pb = dB.Totals.Payable
						}
						// one class of this is understood (KNOWN_FINDINGS.txt): the precise total
						// lies exactly on a half unit, so every adjustment of one unit overshoots
						// to the other side; it is recognised by trying that adjustment once more
						sig := "remove-included:payable"
						if dB.Totals != nil && inv2.Totals != nil {
							want := mustD(dA.Totals.TotalWithTax)
							diff := want.Sub(mustD(dB.Totals.Payable))
							one := dec.New(1, want.E)
							if diff.Cmp(one) == 0 || diff.Neg().Cmp(one) == 0 {
								var flipped bool
								Safely(func() {
									adj := num.MakeAmount(diff.U.Int64(), uint32(diff.E))
									if inv2.Totals.Rounding != nil {
										adj = inv2.Totals.Rounding.Add(adj)
									}
									inv2.Totals.Rounding = &adj
									if inv2.Calculate() == nil {
										if dC, e := viewInvoice(inv2); e == nil && dC.Totals != nil {
											flipped = mustD(dC.Totals.Payable).Sub(want).Cmp(diff) == 0
										}
									}
								})
								if flipped {
									sig = "remove-included:payable:half-unit-oscillation"
								}
							}
						}
						c.R.Fail(sig, fmt.Sprintf("%s: total with tax was %s, payable after removing included taxes is %s (rounding %v)", b.origin, dA.Totals.TotalWithTax, pb, strOrNil(dB.Totals.Rounding)), wit())
					}
					if dB.Totals != nil && mustD(dB.Totals.Payable).Cmp(mustD(dA.Totals.TotalWithTax)) == 0 && dB.Totals.Rounding != nil {
						c.R.Count("remove_included_with_rounding_residue", 1)
						// the residue recorded must be exactly the difference.  One presentation
						// artefact is not a defect (§10.10): under the precise rule the presented
						// total with tax x̄ and payable are roundings of x and x+r, and for r on the
						// currency grid round(x+r) = round(x)+r holds unless x is an exact half
						// unit and x, x+r have opposite signs (symmetric rounding, which this very
						// property demands).  Exactly that case — one unit, opposite signs — is
						// counted instead of reported.
						twtB, payB := mustD(dB.Totals.TotalWithTax), mustD(dB.Totals.Payable)
						gap := twtB.Add(mustD(*dB.Totals.Rounding)).Sub(payB)
						unit := dec.New(1, payB.E)
						if (gap.Cmp(unit) == 0 || gap.Neg().Cmp(unit) == 0) && twtB.Sign()*payB.Sign() < 0 {
							c.R.Count("remove_included_residue_tie_across_zero", 1)
						} else if gap.Sign() != 0 {
							c.R.Fail("remove-included:rounding", fmt.Sprintf("%s: total_with_tax %s + rounding %s ≠ payable %s", b.origin, dB.Totals.TotalWithTax, *dB.Totals.Rounding, dB.Totals.Payable), wit())
						}
					}
				}
			}
		}
		if i%977 == 0 {
			c.R.Sample(map[string]any{"origin": b.origin, "input": json.RawMessage(b.in), "payable": d0.Totals.Payable})
		}
	})
	c.Require("inversions", "permutations", "remove_included_runs")
}
