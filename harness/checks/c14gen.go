package checks

import (
	"encoding/json"
	"fmt"
	"math/rand/v2"

	"verif/internal/dec"
	"verif/internal/gen"
)

// genCases feeds well-formed generated documents (not mutants) to the crash
// pipeline: invoices, orders and deliveries from the calculation grammar in
// all its profiles, and payments whose lines carry document tax summaries.
func genCases(seed int64, n int, fn func(name string, data []byte)) {
	rng := rand.New(rand.NewPCG(uint64(seed), 0xC14))
	g := gen.New(rng, getWorld().defs)
	for i := 0; i < n; i++ {
		switch rng.IntN(5) {
		case 0:
			fn(fmt.Sprintf("gen-payment-%d-%d", seed, i), genPayment(rng, i))
		case 1:
			// documents whose rows cancel out to a total of exactly zero, prices including tax
			q := 2 + rng.IntN(300)
			pr := dec.New(1+rng.Int64N(999), 2)
			tot := dec.New(pr.U.Int64()*int64(q), 2)
			doc := fmt.Sprintf(`{"$schema":"https://gobl.org/draft-0/bill/invoice","uuid":"0190a1b2-c3d4-7e5f-8a9b-0c1d2e3f4a5b","code":"Z-%d","issue_date":"2024-06-01","currency":"EUR","tax":{"prices_include":"VAT"},"supplier":{"name":"A","tax_id":{"country":"ES","code":"B98602642"}},"lines":[{"quantity":"%d","item":{"name":"x","price":"%s"},"taxes":[{"cat":"VAT","rate":"%s"}]},{"quantity":"1","item":{"name":"y","price":"-%s"},"taxes":[{"cat":"VAT","rate":"%s"}]}]}`,
				i, q, pr.String(), []string{"standard", "reduced", "super-reduced"}[rng.IntN(3)], tot.String(), []string{"standard", "reduced", "super-reduced"}[rng.IntN(3)])
			fn(fmt.Sprintf("gen-zero-total-%d-%d", seed, i), []byte(doc))
		default:
			p := gen.Profile{Schema: []string{"bill/invoice", "bill/order", "bill/delivery"}[rng.IntN(3)], MaxLines: 6, Preset: rng.IntN(2) == 0, TaxFocus: rng.IntN(2) == 0, FixedAtCur: rng.IntN(2) == 0}
			if rng.IntN(3) == 0 {
				p.Rule = "currency"
			}
			d := g.Document(p)
			fn(fmt.Sprintf("gen-%s-%d-%d", p.Schema, seed, i), d.JSON)
		}
	}
}

// genPayment builds a payment with 1-5 lines; lines may reference documents
// with tax summaries whose rows share or differ in percentage, surcharge,
// extensions, country and retained categories.
func genPayment(rng *rand.Rand, i int) []byte {
	curs := []string{"EUR", "USD", "MXN"}
	pc := curs[rng.IntN(len(curs))]
	amt := func() string { return dec.New(rng.Int64N(500_000), 2).String() }
	var lines []any
	rates := map[string]bool{}
	for k := 0; k < 1+rng.IntN(5); k++ {
		l := map[string]any{}
		switch rng.IntN(3) {
		case 0:
			l["debit"] = amt()
		case 1:
			l["credit"] = amt()
		default:
			l["debit"], l["credit"] = amt(), amt()
		}
		if rng.IntN(4) == 0 {
			fc := curs[rng.IntN(len(curs))]
			if fc != pc {
				l["currency"] = fc
				rates[fc] = true
			}
		}
		doc := map[string]any{"code": fmt.Sprintf("INV-%d", k+1), "issue_date": "2025-01-10"}
		if rng.IntN(3) != 0 {
			var cats []any
			for _, code := range []string{"VAT", "IRPF"} {
				if rng.IntN(3) == 0 {
					continue
				}
				var rows []any
				for r := 0; r < rng.IntN(3); r++ {
					row := map[string]any{"base": amt()}
					if rng.IntN(6) != 0 {
						row["percent"] = []string{"21.0%", "21%", "10.0%", "0.0%"}[rng.IntN(4)]
						if code == "VAT" && rng.IntN(2) == 0 {
							row["surcharge"] = map[string]any{"percent": []string{"5.2%", "1.4%"}[rng.IntN(2)], "amount": "0.00"}
						}
					}
					if rng.IntN(4) == 0 {
						row["ext"] = map[string]string{"es-tbai-product": []string{"goods", "services"}[rng.IntN(2)]}
					}
					if rng.IntN(8) == 0 {
						row["country"] = "PT"
					}
					if rng.IntN(5) == 0 {
						row["key"] = "standard"
					}
					row["amount"] = "0.00"
					rows = append(rows, row)
				}
				if rows == nil {
					rows = []any{}
				}
				cat := map[string]any{"code": code, "rates": rows, "amount": "0.00"}
				if code == "IRPF" {
					cat["retained"] = true
				}
				cats = append(cats, cat)
			}
			doc["tax"] = map[string]any{"categories": cats, "sum": "0.00"}
		}
		if rng.IntN(5) != 0 {
			l["document"] = doc
		}
		lines = append(lines, l)
	}
	p := map[string]any{
		"$schema": "https://gobl.org/draft-0/bill/payment", "uuid": "0190a1b2-c3d4-7e5f-8a9b-0c1d2e3f4a5b", "$regime": "ES", "type": []string{"receipt", "request", "advice"}[rng.IntN(3)], "code": fmt.Sprintf("P-%d", i), "issue_date": "2025-01-28", "currency": pc,
		"supplier": map[string]any{"name": "Supplier", "tax_id": map[string]any{"country": "ES", "code": "B98602642"}},
		"customer": map[string]any{"name": "Customer"},
		"lines":    lines,
	}
	var xr []any
	for fc := range rates {
		xr = append(xr, map[string]any{"from": fc, "to": pc, "amount": "0.9" + fmt.Sprint(rng.IntN(10))})
	}
	if xr != nil {
		p["exchange_rates"] = xr
	}
	if rng.IntN(6) == 0 {
		p["method"] = map[string]any{"key": "credit-transfer"}
	}
	b, _ := json.Marshal(p)
	return b
}
