package checks

import (
	"bufio"
	"bytes"
	"encoding/base64"
	"encoding/json"
	"fmt"
	"os"
	"os/exec"
	"path/filepath"
	"strings"
	"time"

	"github.com/invopop/gobl"
	"github.com/invopop/gobl/cbc"
	"github.com/invopop/gobl/dsig"
	"github.com/invopop/gobl/head"

	"verif/internal/corpus"
	"verif/internal/ev"
	"verif/internal/gx"
	"verif/internal/jmut"
	"verif/internal/srv"
)

// C09 — signature verification accepts exactly what was signed, on every path.
//
// The expected verdict is computed by the harness from what it did: it holds
// the private keys, remembers the header JSON at each signing, and evaluates
// "the current header contains the signed header" with its own comparison.

func init() { Register("C09", runC09) }

type c09sig struct {
	signer int        // index into keys
	hdr    *jmut.Node // header JSON at signing time
}

type c09case struct {
	name   string
	base   string
	file   string
	envRaw []byte
	sigs   []c09sig
	class  string // history class
}

// ownContains: does cur contain everything the signed header had?
func ownContains(cur, signed *jmut.Node) bool {
	str := func(n *jmut.Node, k string) string {
		if x := n.Get(k); x != nil && x.K == jmut.Str {
			return x.S
		}
		return ""
	}
	if str(cur, "uuid") != str(signed, "uuid") {
		return false
	}
	dv := func(n *jmut.Node) string {
		if d := n.Get("dig"); d != nil {
			return str(d, "alg") + ":" + str(d, "val")
		}
		return ""
	}
	if dv(signed) != "" && dv(cur) != dv(signed) {
		return false
	}
	list := func(n *jmut.Node, k string) []*jmut.Node {
		if x := n.Get(k); x != nil && x.K == jmut.Arr {
			return x.A
		}
		return nil
	}
	for _, s2 := range list(signed, "stamps") {
		ok := false
		for _, s := range list(cur, "stamps") {
			if str(s, "prv") == str(s2, "prv") && str(s, "val") == str(s2, "val") {
				ok = true
			}
		}
		if !ok {
			return false
		}
	}
	for _, l2 := range list(signed, "links") {
		ok := false
		for _, l := range list(cur, "links") {
			if str(l, "key") == str(l2, "key") && str(l, "url") == str(l2, "url") {
				ok = true
			}
		}
		if !ok {
			return false
		}
	}
	for _, t2 := range list(signed, "tags") {
		ok := false
		for _, t := range list(cur, "tags") {
			if t.S == t2.S {
				ok = true
			}
		}
		if !ok {
			return false
		}
	}
	if m2 := signed.Get("meta"); m2 != nil && m2.K == jmut.Obj {
		for _, mem := range m2.M {
			c := cur.Get("meta")
			if c == nil || c.Get(mem.Key) == nil || c.Get(mem.Key).S != mem.Val.S {
				return false
			}
		}
	}
	if n2 := str(signed, "notes"); n2 != "" && n2 != str(cur, "notes") {
		return false
	}
	return true
}

func expectedVerify(cs *c09case, curHead *jmut.Node, keys []int) bool {
	if len(cs.sigs) == 0 {
		return false
	}
	for _, s := range cs.sigs {
		if len(keys) > 0 {
			found := false
			for _, k := range keys {
				if k == s.signer {
					found = true
				}
			}
			if !found {
				return false
			}
		}
		if !ownContains(curHead, s.hdr) {
			return false
		}
	}
	return true
}

func headOf(raw []byte) *jmut.Node {
	n, err := jmut.Parse(raw)
	if err != nil {
		return nil
	}
	return n.Get("head")
}

func runC09(c *Ctx) {
	c.R.Rule("signed corpus invoices, orders, deliveries and payments (1 or 2 signatures, header entries present before signing chosen per envelope) × post-signing history classes (none, +stamp/+link/+tag/+meta/+notes, signed entry removed or altered, uuid/digest replaced, document edited with and without recalculation, signature transplanted, signature order swapped, same header signed by another key) × key sets, presented to library Verify, `gobl verify` process, POST /verify and POST /bulk verify; non-trivial = the expected verdict of the history differs between at least two keys; distinct by (envelope, history, path, keys)")
	c.R.Assume("expected verdict: every signature was made by one of the presented keys and the current header contains the header that signature covers (own comparison of uuid, dig, stamps, links, tags, meta, notes); the CLI/HTTP/bulk paths validate the envelope first, so their expected verdict also requires Envelope.Validate()==nil")
	keys := []*dsig.PrivateKey{dsig.NewES256Key(), dsig.NewES256Key(), dsig.NewES256Key()}
	// impostors: other key pairs that present the key id of signer 0 / signer 1
	pubs := make([]*dsig.PublicKey, 0, 5)
	for _, k := range keys {
		pubs = append(pubs, k.Public())
	}
	for target := 0; target < 2; target++ {
		var m map[string]any
		b, _ := json.Marshal(dsig.NewES256Key().Public())
		_ = json.Unmarshal(b, &m)
		m["kid"] = keys[target].ID()
		b, _ = json.Marshal(m)
		imp := new(dsig.PublicKey)
		if err := json.Unmarshal(b, imp); err != nil || imp.ID() != keys[target].ID() {
			c.R.Inconclusive("cannot-build-impostor-key")
			return
		}
		pubs = append(pubs, imp) // indexes 3 and 4
	}
	var invs []corpus.Item
	var others []corpus.Item
	for _, it := range corpus.Golden() {
		switch it.Type {
		case "bill/invoice":
			invs = append(invs, it)
		case "bill/order", "bill/delivery", "bill/payment":
			others = append(others, it)
		}
	}
	nEnv := c.N(8, 60)
	rng := c.Rand(1)
	rng.Shuffle(len(invs), func(i, j int) { invs[i], invs[j] = invs[j], invs[i] })
	rng.Shuffle(len(others), func(i, j int) { others[i], others[j] = others[j], others[i] })
	// the other billing document types take part from the start of the list
	if len(others) > 3 {
		others = others[:3]
	}
	if len(invs) > 2 {
		invs = append(append(append([]corpus.Item{}, invs[:2]...), others...), invs[2:]...)
	}

	gbin := filepath.Join(ev.Root(), "bin", "gobl")
	if _, err := os.Stat(gbin); err != nil {
		c.R.Inconclusive("no-cli-binary")
		return
	}
	server, err := srv.Start(gbin)
	if err != nil {
		c.R.Inconclusive("server-start:" + err.Error())
		return
	}
	defer func() {
		log := server.Stop()
		if strings.Contains(log, "panic") {
			c.R.Set("server_log_tail", trunc(log))
		}
	}()
	tmp, _ := os.MkdirTemp("", "verif-c09-")
	defer os.RemoveAll(tmp)
	pubFiles := make([]string, len(pubs))
	pubJSON := make([][]byte, len(pubs))
	for i, k := range pubs {
		pubJSON[i], _ = json.Marshal(k)
		pubFiles[i] = filepath.Join(tmp, fmt.Sprintf("k%d.pub.jwk", i))
		_ = os.WriteFile(pubFiles[i], pubJSON[i], 0o644)
	}

	var cases []*c09case
	var transplantDonor []byte // a signed envelope by key 0 from another document
	used := 0
	for _, it := range invs {
		if used >= nEnv+1 {
			break
		}
		env, err := gx.ParseEnvelope(it.Data)
		if err != nil {
			continue
		}
		// every second envelope carries coordinates on its supplier's first address (the
		// only JSON floats a document holds), negative one-digit values among them
		if used%2 == 0 {
			if n, perr := jmut.Parse(it.Data); perr == nil {
				if sup := n.Get("doc").Get("supplier"); sup != nil && sup.K == jmut.Obj {
					addrs := sup.Get("addresses")
					if addrs == nil || addrs.K != jmut.Arr || len(addrs.A) == 0 {
						addrs = jmut.Ar(jmut.O(jmut.Member{Key: "locality", Val: jmut.S("Greenwich")}, jmut.Member{Key: "country", Val: jmut.S("GB")}))
						sup.Set("addresses", addrs)
					}
					pairs := [][2]string{{"51.5", "-0.1"}, {"-0.07", "2e-7"}, {"-33.9", "-70.0"}, {"-5.0e-1", "0.3"}}
					pr := pairs[(used/2)%len(pairs)]
					addrs.A[0].Set("coords", jmut.O(jmut.Member{Key: "lat", Val: jmut.N(pr[0])}, jmut.Member{Key: "lon", Val: jmut.N(pr[1])}))
					if e2, e2err := gx.ParseEnvelope(n.Bytes()); e2err == nil {
						var cerr error
						if p, _ := Safely(func() { cerr = e2.Calculate() }); p == nil && cerr == nil {
							env = e2
							c.R.Count("signed_envelopes_with_coordinates", 1)
						}
					}
				}
			}
		}
		// header entries present before signing, chosen per envelope
		mask := rng.IntN(16)
		if fixed := []int{15, 0, 5, 10, 3, 12}; used < len(fixed) {
			mask = fixed[used] // every header entry kind is present before signing in at least two envelopes
		}
		if mask&1 != 0 {
			env.Head.Tags = []string{"alpha", "beta"}
		}
		if mask&2 != 0 {
			env.Head.Meta = cbc.Meta{"origin": "verif", "batch": "7"}
		}
		if mask&4 != 0 {
			env.Head.Notes = "signed notes"
		}
		if mask&8 != 0 {
			env.Head.AddLink(&head.Link{Key: "pdf", URL: "https://example.com/a.pdf"})
		}
		if p, _ := Safely(func() { err = env.Sign(keys[0]) }); p != nil || err != nil {
			c.R.Count("unsignable_corpus_invoices", 1)
			continue
		}
		rawA, _ := json.Marshal(env)
		if transplantDonor == nil {
			transplantDonor = rawA
			continue
		}
		used++
		hdrA := headOf(rawA)
		sigA := []c09sig{{0, hdrA}}
		// base B: stamp added, second signature by key 1
		env.Head.AddStamp(&head.Stamp{Provider: "verif-stamp", Value: "S-1"})
		var rawB []byte
		var sigB []c09sig
		if p, _ := Safely(func() { err = env.Sign(keys[1]) }); p == nil && err == nil {
			rawB, _ = json.Marshal(env)
			sigB = []c09sig{{0, hdrA}, {1, headOf(rawB)}}
		}
		c09headerAPI(c, it.Rel, "one-sig", rawA, []*dsig.PublicKey{pubs[0]})
		if rawB != nil {
			c09headerAPI(c, it.Rel, "two-sigs", rawB, []*dsig.PublicKey{pubs[0], pubs[1]})
		}
		cases = append(cases, c09histories(c, it.Rel, "one-sig", rawA, sigA, keys, transplantDonor)...)
		if rawB != nil {
			cases = append(cases, c09histories(c, it.Rel, "two-sigs", rawB, sigB, keys, transplantDonor)...)
		}
	}
	if len(cases) == 0 {
		c.R.Inconclusive("no-signable-envelopes")
		return
	}
	c.R.Set("histories", len(cases))

	// on one in-memory envelope, in this order: the signer's key first, then the
	// impostor presenting the same key id
	// (-1 stands for a key that is not there: a nil *dsig.PublicKey, as a key-store
	// lookup that found nothing hands over; it verifies nothing)
	keySets := [][]int{{0}, {3}, {1}, {4}, {2}, {0, 1}, {3, 1}, {0, 4}, {}, {-1}}
	c.Parallel(len(cases), func(i int) {
		cs := cases[i]
		cur := headOf(cs.envRaw)
		env, perr := gx.ParseEnvelope(cs.envRaw)
		if perr != nil || cur == nil {
			c.R.Count("history_unparseable", 1)
			return
		}
		valid := false
		Safely(func() { valid = env.Validate() == nil })
		// the digest the harness's own canonicaliser gives the document that is there
		// now: when the header states another one, the envelope is not what was signed
		// and no path may accept it (whatever the library's canonicaliser says)
		refMismatch := false
		if rd, ok := refDigestOfEnvelope(cs.envRaw); ok {
			if dv := cur.Get("dig"); dv != nil && dv.Get("val") != nil {
				c.R.Count("reference_digests_compared", 1)
				refMismatch = dv.Get("val").S != rd
			}
		}
		verdicts := map[bool]int{}
		file := filepath.Join(tmp, fmt.Sprintf("case-%d.json", i))
		_ = os.WriteFile(file, cs.envRaw, 0o644)
		for _, ks := range keySets {
			want := expectedVerify(cs, cur, ks)
			verdicts[want]++
			// (L) library
			var pks []*dsig.PublicKey
			for _, k := range ks {
				if k < 0 {
					pks = append(pks, nil)
					continue
				}
				pks = append(pks, pubs[k])
			}
			var lerr error
			p, _ := Safely(func() { lerr = env.Verify(pks...) })
			c.R.Count("verifications:library", 1)
			c09judge(c, cs, "library", ks, want, p == nil && lerr == nil, fmt.Sprint(lerr, p))
			if refMismatch && valid && p == nil && lerr == nil {
				c09judge(c, cs, "library-validate+verify", ks, false, true, "the header digest is not the reference digest of the document, yet Validate and Verify both pass")
			}
			if len(ks) != 1 || ks[0] < 0 {
				continue
			}
			wantCLI := want && valid && !refMismatch
			// (C) process
			cmd := exec.Command(gbin, "verify", "-k", pubFiles[ks[0]], file)
			var out bytes.Buffer
			cmd.Stdout, cmd.Stderr = &out, &out
			cerr := runWithTimeout(cmd, 60*time.Second)
			c.R.Count("verifications:cli", 1)
			c09judge(c, cs, "cli", ks, wantCLI, cerr == nil, trunc(out.String()))
			// (H) POST /verify
			body, _ := json.Marshal(map[string]any{"data": cs.envRaw, "publickey": json.RawMessage(pubJSON[ks[0]])})
			st, resp, herr := server.Post("/verify", body, "application/json")
			c.R.Count("verifications:http", 1)
			if herr != nil {
				c.R.Count("http_errors", 1)
			} else {
				c09judge(c, cs, "http", ks, wantCLI, st == 200 && bytes.Contains(resp, []byte(`"ok":true`)), fmt.Sprintf("%d %s", st, trunc(string(resp))))
			}
			// (B) POST /bulk verify
			line, _ := json.Marshal(map[string]any{"action": "verify", "req_id": fmt.Sprintf("r%d", i), "payload": map[string]any{"data": base64.StdEncoding.EncodeToString(cs.envRaw), "publickey": json.RawMessage(pubJSON[ks[0]])}})
			ok, detail, berr := bulkOne(server, line)
			c.R.Count("verifications:bulk", 1)
			if berr != nil {
				c.R.Count("bulk_errors", 1)
			} else {
				c09judge(c, cs, "bulk", ks, wantCLI, ok, detail)
			}
		}
		nontriv := verdicts[true] > 0 && verdicts[false] > 0
		c.R.Case(nontriv, ev.Hash(cs.file, cs.base, cs.name))
		c.R.Count("history:"+cs.class, 1)
		if i%37 == 0 {
			c.R.Sample(map[string]any{"envelope": cs.file, "base": cs.base, "history": cs.name, "expected_ok_for_signer_key": expectedVerify(cs, cur, []int{0})})
		}
	})
	if crashed, what := server.Crashed(); crashed {
		c.R.Set("server_crash", what)
	}
	c.Require("reference_digests_compared", "signed_envelopes_with_coordinates", "header_api_operations", "verifications:library", "verifications:cli", "verifications:http", "verifications:bulk", "history:doc-edited-stale", "history:doc-edited-invalid-stale")
}

func runWithTimeout(cmd *exec.Cmd, d time.Duration) error {
	if err := cmd.Start(); err != nil {
		return err
	}
	done := make(chan error, 1)
	go func() { done <- cmd.Wait() }()
	select {
	case err := <-done:
		return err
	case <-time.After(d):
		_ = cmd.Process.Kill()
		<-done
		return fmt.Errorf("timeout")
	}
}

func bulkOne(s *srv.Server, line []byte) (ok bool, detail string, err error) {
	resp, err := s.PostStream("/bulk", bytes.NewReader(append(line, '\n')))
	if err != nil {
		return false, "", err
	}
	defer resp.Body.Close()
	sc := bufio.NewScanner(resp.Body)
	sc.Buffer(make([]byte, 1<<20), 64<<20)
	for sc.Scan() {
		var r struct {
			SeqID   int64           `json:"seq_id"`
			Payload json.RawMessage `json:"payload"`
			Error   json.RawMessage `json:"error"`
			IsFinal bool            `json:"is_final"`
		}
		if json.Unmarshal(sc.Bytes(), &r) != nil {
			continue
		}
		if r.IsFinal {
			continue
		}
		if string(r.Error) != "null" && len(r.Error) > 0 {
			return false, trunc(string(r.Error)), nil
		}
		return bytes.Contains(r.Payload, []byte(`"ok":true`)), trunc(string(r.Payload)), nil
	}
	return false, "no response line", fmt.Errorf("no response")
}

func c09judge(c *Ctx, cs *c09case, path string, ks []int, want, got bool, detail string) {
	if want == got {
		return
	}
	kind := "accept-unsigned"
	if want && !got {
		kind = "reject-signed"
	}
	c.R.Fail(fmt.Sprintf("%s:%s:%s:%s", kind, path, cs.base, cs.class),
		fmt.Sprintf("%s path, envelope %s (%s), history %q, keys %v: expected success=%v, got success=%v (%s)", path, cs.file, cs.base, cs.name, ks, want, got, detail),
		map[string]any{"path": path, "envelope_file": cs.file, "history": cs.name, "keys": ks, "envelope": json.RawMessage(cs.envRaw)})
}

// c09histories derives the post-signing histories of one signed envelope.
// c09headerAPI changes the header of a signed envelope through the library's own
// helpers (AddLink, AddStamp, tags, meta). The expected verdict is known from
// what the operation is, not recomputed from the header it leaves behind:
// adding an entry under a new key keeps every signed entry, so verification
// keeps succeeding; replacing a signed entry makes it fail.
func c09headerAPI(c *Ctx, file, base string, raw []byte, keys []*dsig.PublicKey) {
	type op struct {
		name   string
		wantOK bool
		do     func(e *gobl.Envelope) bool
	}
	ops := []op{
		{"AddLink(new key, new url)", true, func(e *gobl.Envelope) bool {
			e.Head.AddLink(&head.Link{Key: "verif-new", URL: "https://example.com/verif-new"})
			return true
		}},
		{"AddLink(new key, url of a signed link)", true, func(e *gobl.Envelope) bool {
			if len(e.Head.Links) == 0 || e.Head.Links[0] == nil {
				return false
			}
			e.Head.AddLink(&head.Link{Key: "verif-same-url", URL: e.Head.Links[0].URL})
			return true
		}},
		{"AddStamp(new provider, value of a signed stamp)", true, func(e *gobl.Envelope) bool {
			if len(e.Head.Stamps) == 0 || e.Head.Stamps[0] == nil {
				return false
			}
			e.Head.AddStamp(&head.Stamp{Provider: "verif-other-provider", Value: e.Head.Stamps[0].Value})
			return true
		}},
		{"AddStamp(new provider)", true, func(e *gobl.Envelope) bool {
			e.Head.AddStamp(&head.Stamp{Provider: "verif-new-provider", Value: "N-1"})
			return true
		}},
		{"AddLink(signed key, other url)", false, func(e *gobl.Envelope) bool {
			if len(e.Head.Links) == 0 || e.Head.Links[0] == nil {
				return false
			}
			e.Head.AddLink(&head.Link{Key: e.Head.Links[0].Key, URL: "https://example.com/replaced"})
			return true
		}},
		{"AddStamp(signed provider, other value)", false, func(e *gobl.Envelope) bool {
			if len(e.Head.Stamps) == 0 || e.Head.Stamps[0] == nil {
				return false
			}
			e.Head.AddStamp(&head.Stamp{Provider: e.Head.Stamps[0].Provider, Value: e.Head.Stamps[0].Value + "-replaced"})
			return true
		}},
		{"tags and meta added", true, func(e *gobl.Envelope) bool {
			e.Head.Tags = append(e.Head.Tags, "verif-tag")
			if e.Head.Meta == nil {
				e.Head.Meta = cbc.Meta{}
			}
			e.Head.Meta["verif-key"] = "v"
			return true
		}},
		{"three links added in a row", true, func(e *gobl.Envelope) bool {
			for k := 0; k < 3; k++ {
				e.Head.AddLink(&head.Link{Key: cbc.Key(fmt.Sprintf("verif-l%d", k)), URL: fmt.Sprintf("https://example.com/l%d", k)})
			}
			return true
		}},
	}
	for _, o := range ops {
		env, err := gx.ParseEnvelope(raw)
		if err != nil {
			return
		}
		var applied bool
		var verr error
		if p, _ := Safely(func() {
			if applied = o.do(env); applied {
				verr = env.Verify(keys...)
			}
		}); p != nil || !applied {
			continue
		}
		c.R.Count("header_api_operations", 1)
		c.R.Case(true, ev.Hash(file, base, "api", o.name))
		if (verr == nil) != o.wantOK {
			c.R.Fail("header-api:"+strings.SplitN(o.name, "(", 2)[0]+":"+map[bool]string{true: "breaks-signed-entries", false: "replacement-unnoticed"}[o.wantOK], fmt.Sprintf("%s (%s): after %s on the signed envelope, Verify returns %v (expected success=%v)", file, base, o.name, verr, o.wantOK), map[string]any{"envelope": file, "base": base, "operation": o.name})
		}
	}
}

func c09histories(c *Ctx, file, base string, raw []byte, sigs []c09sig, keys []*dsig.PrivateKey, donor []byte) []*c09case {
	var out []*c09case
	add := func(name, class string, fn func(n *jmut.Node) bool) {
		n, err := jmut.Parse(raw)
		if err != nil {
			return
		}
		if !fn(n) {
			return
		}
		out = append(out, &c09case{name: name, base: base, file: file, envRaw: n.Bytes(), sigs: sigs, class: class})
	}
	hd := func(n *jmut.Node) *jmut.Node { return n.Get("head") }
	arr := func(h *jmut.Node, k string) *jmut.Node {
		a := h.Get(k)
		if a == nil {
			a = jmut.Ar()
			h.Set(k, a)
		}
		return a
	}
	add("none", "none", func(n *jmut.Node) bool { return true })
	add("+stamp", "added-entry", func(n *jmut.Node) bool {
		a := arr(hd(n), "stamps")
		a.A = append(a.A, jmut.O(jmut.Member{Key: "prv", Val: jmut.S("verif-new")}, jmut.Member{Key: "val", Val: jmut.S("N-1")}))
		return true
	})
	add("+link", "added-entry", func(n *jmut.Node) bool {
		a := arr(hd(n), "links")
		a.A = append(a.A, jmut.O(jmut.Member{Key: "key", Val: jmut.S("portal")}, jmut.Member{Key: "url", Val: jmut.S("https://example.com/portal")}))
		return true
	})
	add("+tag", "added-entry", func(n *jmut.Node) bool {
		a := arr(hd(n), "tags")
		a.A = append(a.A, jmut.S("later"))
		return true
	})
	add("+meta", "added-entry", func(n *jmut.Node) bool {
		m := hd(n).Get("meta")
		if m == nil {
			m = jmut.O()
			hd(n).Set("meta", m)
		}
		m.Set("later", jmut.S("yes"))
		return true
	})
	add("+notes", "added-entry", func(n *jmut.Node) bool {
		if hd(n).Get("notes") != nil {
			return false
		}
		hd(n).Set("notes", jmut.S("added after signing"))
		return true
	})
	add("stamp value altered", "signed-entry-altered", func(n *jmut.Node) bool {
		a := hd(n).Get("stamps")
		if a == nil || len(a.A) == 0 {
			return false
		}
		a.A[0].Set("val", jmut.S("S-2"))
		return true
	})
	add("signed stamp removed", "signed-entry-removed", func(n *jmut.Node) bool {
		if hd(n).Get("stamps") == nil {
			return false
		}
		hd(n).Del("stamps")
		return true
	})
	add("signed link url altered", "signed-entry-altered", func(n *jmut.Node) bool {
		a := hd(n).Get("links")
		if a == nil || len(a.A) == 0 {
			return false
		}
		a.A[0].Set("url", jmut.S("https://example.com/b.pdf"))
		return true
	})
	add("signed link removed", "signed-entry-removed", func(n *jmut.Node) bool {
		if hd(n).Get("links") == nil {
			return false
		}
		hd(n).Del("links")
		return true
	})
	add("signed tag removed", "signed-entry-removed", func(n *jmut.Node) bool {
		a := hd(n).Get("tags")
		if a == nil || len(a.A) < 2 {
			return false
		}
		a.A = a.A[:1]
		return true
	})
	add("signed tag altered", "signed-entry-altered", func(n *jmut.Node) bool {
		a := hd(n).Get("tags")
		if a == nil || len(a.A) == 0 {
			return false
		}
		a.A[len(a.A)-1] = jmut.S("gamma")
		return true
	})
	add("signed meta value altered", "signed-entry-altered", func(n *jmut.Node) bool {
		m := hd(n).Get("meta")
		if m == nil || m.Get("batch") == nil {
			return false
		}
		m.Set("batch", jmut.S("8"))
		return true
	})
	add("signed meta key removed", "signed-entry-removed", func(n *jmut.Node) bool {
		m := hd(n).Get("meta")
		if m == nil || m.Get("origin") == nil {
			return false
		}
		m.Del("origin")
		return true
	})
	add("signed notes altered", "signed-entry-altered", func(n *jmut.Node) bool {
		if hd(n).Get("notes") == nil {
			return false
		}
		hd(n).Set("notes", jmut.S("other notes"))
		return true
	})
	add("signed notes removed", "signed-entry-removed", func(n *jmut.Node) bool {
		if hd(n).Get("notes") == nil {
			return false
		}
		hd(n).Del("notes")
		return true
	})
	add("uuid replaced", "identifier-replaced", func(n *jmut.Node) bool {
		hd(n).Set("uuid", jmut.S("0190a1b2-c3d4-7e5f-8a9b-0c1d2e3f4a5b"))
		return true
	})
	// the digest entry names its algorithm too: the signed header says sha256
	for _, alg := range []string{"sha512", "SHA256", ""} {
		alg := alg
		add("digest algorithm renamed to "+fmt.Sprintf("%q", alg), "digest-replaced", func(n *jmut.Node) bool {
			d := hd(n).Get("dig")
			if d == nil || d.Get("alg") == nil {
				return false
			}
			d.Set("alg", jmut.S(alg))
			return true
		})
	}
	add("digest replaced", "digest-replaced", func(n *jmut.Node) bool {
		d := hd(n).Get("dig")
		if d == nil {
			return false
		}
		d.Set("val", jmut.S("e3b0c44298fc1c149afbf4c8996fb92427ae41e4649b934ca495991b7852b855"))
		return true
	})
	add("document edited, not recalculated", "doc-edited-stale", func(n *jmut.Node) bool {
		doc := n.Get("doc")
		if lines := doc.Get("lines"); lines != nil && len(lines.A) > 0 && lines.A[0].Get("quantity") != nil {
			lines.A[0].Set("quantity", jmut.S("77"))
			return true
		}
		if doc.Get("code") == nil {
			return false
		}
		doc.Set("code", jmut.S("EDITED-77")) // documents whose lines have no quantity (payments)
		return true
	})
	// a coordinate with the other sign (another place on earth), with and without recalculation
	flipCoord := func(n *jmut.Node, which string) bool {
		sup := n.Get("doc").Get("supplier")
		if sup == nil || sup.K != jmut.Obj {
			return false
		}
		addrs := sup.Get("addresses")
		if addrs == nil || addrs.K != jmut.Arr || len(addrs.A) == 0 || addrs.A[0].Get("coords") == nil {
			return false
		}
		v := addrs.A[0].Get("coords").Get(which)
		if v == nil || v.K != jmut.Num {
			return false
		}
		if strings.HasPrefix(v.Num, "-") {
			v.Num = v.Num[1:]
		} else {
			v.Num = "-" + v.Num
		}
		return true
	}
	for _, which := range []string{"lat", "lon"} {
		which := which
		add("coordinate "+which+" given the other sign, not recalculated", "doc-edited-stale", func(n *jmut.Node) bool { return flipCoord(n, which) })
		if n, err := jmut.Parse(raw); err == nil && flipCoord(n, which) {
			if env, err := gx.ParseEnvelope(n.Bytes()); err == nil {
				var cerr error
				if p, _ := Safely(func() { cerr = env.Calculate() }); p == nil && cerr == nil {
					b, _ := json.Marshal(env)
					out = append(out, &c09case{name: "coordinate " + which + " given the other sign and recalculated, signatures kept", base: base, file: file, envRaw: b, sigs: sigs, class: "doc-edited-recalculated"})
				}
			}
		}
	}
	add("document edited into an invalid one, not recalculated", "doc-edited-invalid-stale", func(n *jmut.Node) bool {
		doc := n.Get("doc")
		if doc.Get("code") == nil || doc.Get("type") == nil {
			return false
		}
		doc.Set("code", jmut.S("EDITED-77"))
		doc.Set("type", jmut.S("zz-undefined-type")) // invalid in every billing document type
		return true
	})
	// document edited and recalculated under the original signatures
	{
		n, err := jmut.Parse(raw)
		if err == nil {
			doc := n.Get("doc")
			if doc.Get("code") != nil {
				doc.Set("code", jmut.S("EDITED-77"))
				if env, err := gx.ParseEnvelope(n.Bytes()); err == nil {
					var cerr error
					if p, _ := Safely(func() { cerr = env.Calculate() }); p == nil && cerr == nil {
						b, _ := json.Marshal(env)
						out = append(out, &c09case{name: "document edited and recalculated, signatures kept", base: base, file: file, envRaw: b, sigs: sigs, class: "doc-edited-recalculated"})
					}
				}
			}
		}
	}
	add("signatures transplanted from another envelope signed by the same key", "transplant", func(n *jmut.Node) bool {
		d, err := jmut.Parse(donor)
		if err != nil || d.Get("sigs") == nil {
			return false
		}
		n.Set("sigs", d.Get("sigs").Clone())
		return true
	})
	if t := out[len(out)-1]; t.class == "transplant" {
		// the signatures now cover the donor's header
		dh := headOf(donor)
		t.sigs = []c09sig{{0, dh}}
	}
	if len(sigs) == 2 {
		add("signature order swapped", "sig-order", func(n *jmut.Node) bool {
			s := n.Get("sigs")
			if s == nil || len(s.A) != 2 {
				return false
			}
			s.A[0], s.A[1] = s.A[1], s.A[0]
			return true
		})
		if t := out[len(out)-1]; t.class == "sig-order" {
			t.sigs = []c09sig{sigs[1], sigs[0]}
		}
		add("second signature dropped", "sig-dropped", func(n *jmut.Node) bool {
			s := n.Get("sigs")
			s.A = s.A[:1]
			return true
		})
		if t := out[len(out)-1]; t.class == "sig-dropped" {
			t.sigs = sigs[:1]
		}
	}
	// the same (current) header signed by another key replaces the first signature
	if env, err := gx.ParseEnvelope(raw); err == nil {
		if sig, err := keys[2].Sign(env.Head); err == nil {
			env.Signatures[0] = sig
			b, _ := json.Marshal(env)
			ns := append([]c09sig{{2, headOf(raw)}}, sigs[1:]...)
			out = append(out, &c09case{name: "first signature replaced by another key's signature of the same header", base: base, file: file, envRaw: b, sigs: ns, class: "other-signer"})
		}
	}
	_ = gobl.VERSION
	return out
}
