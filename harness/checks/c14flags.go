package checks

import (
	"bytes"
	"encoding/base64"
	"encoding/json"
	"fmt"
	"os"
	"os/exec"
	"path/filepath"
	"strings"
	"time"

	"verif/internal/corpus"
	"verif/internal/gx"
	"verif/internal/srv"
)

// c14flags drives the command line options of the gobl binary (values merged
// into the document from flags, files and templates, document types, raw
// correction data, key files) and the request envelope of the bulk protocol
// with hostile values. A process must end with exit code 0 or 1 and, when it
// fails, print its error; it must never crash or hang.
func c14flags(c *Ctx, gbin string, server *srv.Server, items []corpus.Item, tmp string) {
	var doc []byte
	var envFile, docFile string
	for _, it := range items {
		if it.Type == "bill/invoice" {
			if d, err := gx.DocJSON(it.Data); err == nil {
				doc = d
				envFile = filepath.Join(tmp, "flags-env.json")
				docFile = filepath.Join(tmp, "flags-doc.json")
				_ = os.WriteFile(envFile, it.Data, 0o644)
				_ = os.WriteFile(docFile, d, 0o644)
				break
			}
		}
	}
	if doc == nil {
		return
	}
	write := func(name, content string) string {
		p := filepath.Join(tmp, name)
		_ = os.WriteFile(p, []byte(content), 0o644)
		return p
	}
	yamlBomb := write("bomb.yaml", "a: &a [x,x,x,x,x,x,x,x]\nb: &b [*a,*a,*a,*a,*a,*a,*a,*a]\nc: &c [*b,*b,*b,*b,*b,*b,*b,*b]\nd: [*c,*c,*c,*c,*c,*c,*c,*c]\n")
	notJSON := write("not.json", "{\"a\":")
	empty := write("empty.json", "")
	arrayFile := write("array.json", "[1,2,3]")
	nullFile := write("null.json", "null")
	partyTemplate := write("party.yaml", "$schema: \"https://gobl.org/draft-0/org/party\"\nname: T\n")
	badKey := write("bad.jwk", "{\"kty\":\"EC\",\"crv\":\"P-256\",\"x\":\"AA\",\"y\":\"AA\",\"d\":\"AA\"}")
	rsaKey := write("rsa.jwk", "{\"kty\":\"RSA\",\"n\":\"AQAB\",\"e\":\"AQAB\"}")
	keyFile := filepath.Join(server.Dir, "key.jwk")
	missing := filepath.Join(tmp, "does-not-exist.json")

	setValues := []string{
		"supplier.name=X", "lines=", "lines=1", "lines[0].quantity=abc", "lines.0.quantity=-1e999", "totals=null", "$schema=x", "$schema=", "=x", "a.b.c.d.e.f=1",
		"lines[99999999].quantity=1", "lines[-1]=x", "supplier=[]", "supplier.tax_id.country=ZZZZ", "currency=", "issue_date=0000-00-00", "tax.prices_include=" + strings.Repeat("A", 5000),
		"lines[0].taxes[0].percent=-100%", "lines[0].item.price=1e-400", "code=\x01\x7f", "supplier.name=\"quoted\"", "..=1", "lines[0]..x=1", "[0]=1", "lines[a]=1",
	}
	var cases [][]string
	for _, sv := range setValues {
		cases = append(cases, []string{"build", "--set", sv, docFile}, []string{"build", "--set-string", sv, docFile}, []string{"sign", "-k", keyFile, "--set", sv, envFile})
	}
	for _, f := range []string{yamlBomb, notJSON, empty, arrayFile, nullFile, missing, partyTemplate, tmp} {
		cases = append(cases,
			[]string{"build", "--set-file", "supplier=" + f, docFile},
			[]string{"build", "--set-file", "=" + f, docFile},
			[]string{"build", "-T", f, docFile},
			[]string{"build", "-T", f},
			[]string{"build", f},
			[]string{"validate", f},
			[]string{"sign", "-k", f, envFile},
			[]string{"verify", "-k", f, envFile},
			[]string{"correct", "--credit", f},
			[]string{"replicate", f},
		)
	}
	for _, k := range []string{badKey, rsaKey} {
		cases = append(cases, []string{"sign", "-k", k, envFile}, []string{"verify", "-k", k, envFile})
	}
	for _, t := range []string{"bill/invoice", "bill.Invoice", "org/party", "zz/none", "", "https://gobl.org/draft-0/bill/invoice", strings.Repeat("x", 3000)} {
		cases = append(cases, []string{"build", "-t", t, docFile}, []string{"build", "-e", "-t", t, docFile}, []string{"sign", "-k", keyFile, "-t", t, docFile})
	}
	for _, d := range []string{"", "null", "[]", "{", "{\"type\":null}", "{\"type\":5}", "{\"type\":\"credit-note\",\"stamps\":[null]}", "{\"type\":\"credit-note\",\"ext\":{\"\":\"\"}}", "{\"type\":\"credit-note\",\"issue_date\":\"x\"}", "{\"type\":\"credit-note\",\"series\":[1]}", "\"credit-note\"", "{\"type\":\"credit-note\",\"reason\":\"" + strings.Repeat("r", 100000) + "\"}", "{\"type\":\"credit-note\",\"copy_tax\":\"yes\"}"} {
		cases = append(cases, []string{"correct", "-d", d, envFile}, []string{"correct", "--credit", "--debit", "-d", d, envFile})
	}
	cases = append(cases,
		[]string{"correct", "--options", envFile}, []string{"correct", "--options", docFile}, []string{"correct", "--credit", "--debit", envFile}, []string{"correct", envFile},
		[]string{"build", "-i", "-e", docFile}, []string{"build", "-w", missing}, []string{"build", docFile, filepath.Join(tmp, "no-such-dir", "out.json")},
		[]string{"keygen", filepath.Join(tmp, "no-such-dir", "k.jwk")}, []string{"keygen", tmp}, []string{"keygen", "-f", filepath.Join(tmp, "new.jwk")},
		[]string{"bulk", notJSON}, []string{"bulk", empty}, []string{"bulk", arrayFile}, []string{"bulk", missing},
		[]string{"version"}, []string{"zz-unknown"}, []string{"build", "--zz"}, []string{},
	)
	c.Parallel(len(cases), func(i int) {
		args := cases[i]
		cmd := exec.Command(gbin, args...)
		cmd.Dir = tmp
		cmd.Stdin = strings.NewReader("")
		var so, se bytes.Buffer
		cmd.Stdout, cmd.Stderr = &so, &se
		err := runWithTimeout(cmd, 60*time.Second)
		c.R.Count("cli_flag_cases", 1)
		c.R.Case(true, hashStrings(args))
		out := se.String() + so.String()
		shown := append([]string{}, args...)
		for k := range shown {
			if len(shown[k]) > 200 {
				shown[k] = shown[k][:200] + "…"
			}
		}
		wit := map[string]any{"args": shown, "output": trunc(out)}
		name := "(none)"
		if len(args) > 0 {
			name = args[0]
		}
		switch {
		case strings.Contains(out, "panic:") || strings.Contains(out, "fatal error:") || strings.Contains(out, "goroutine 1 ["):
			c.R.Fail("panic:cli-flags:"+panicSite(out), fmt.Sprintf("`gobl %s` crashed: %s", strings.Join(shown, " "), trunc(out)), wit)
		case err != nil && err.Error() == "timeout":
			c.R.Fail("hang:cli-flags:"+name, fmt.Sprintf("`gobl %s` did not finish within 60 s", strings.Join(shown, " ")), wit)
		case err != nil:
			if _, ok := err.(*exec.ExitError); !ok {
				c.R.Count("cli_flag_cases_not_started", 1) // the harness could not start the process
				return
			}
			if ee, ok := err.(*exec.ExitError); ok && ee.ExitCode() != 1 {
				c.R.Fail(fmt.Sprintf("cli-exit:%s:%d", name, ee.ExitCode()), fmt.Sprintf("`gobl %s` ended with exit code %d: %s", strings.Join(shown, " "), ee.ExitCode(), trunc(out)), wit)
			} else if strings.TrimSpace(out) == "" {
				c.R.Fail("cli-silent-failure:"+name, fmt.Sprintf("`gobl %s` failed without printing an error", strings.Join(shown, " ")), wit)
			}
			c.R.Count("cli_flag_cases_refused", 1)
		}
	})

	// bulk protocol: request envelopes that are not what the protocol expects
	b64 := base64.StdEncoding.EncodeToString(doc)
	lines := []string{
		`{}`, `[]`, `null`, `1`, `"x"`, `{"action":null}`, `{"action":5}`, `{"action":"zz-unknown","req_id":"u"}`, `{"action":"build"}`, `{"action":"build","payload":null}`,
		`{"action":"build","payload":[]}`, `{"action":"build","payload":"x"}`, `{"action":"build","payload":{"data":null}}`, `{"action":"build","payload":{"data":5}}`,
		`{"action":"build","payload":{"data":"!!!not-base64"}}`, `{"action":"build","payload":{"data":""}}`, `{"action":"build","req_id":5,"payload":{"data":"` + b64 + `"}}`,
		`{"action":"build","req_id":"` + strings.Repeat("i", 70000) + `","payload":{"data":"` + b64 + `"}}`,
		`{"action":"build","payload":{"data":"` + b64 + `","template":"!!!"}}`, `{"action":"build","payload":{"data":"` + b64 + `","template":"` + base64.StdEncoding.EncodeToString([]byte("[1]")) + `"}}`,
		`{"action":"build","payload":{"data":"` + b64 + `","type":5}}`, `{"action":"build","payload":{"data":"` + b64 + `","envelop":"yes"}}`,
		`{"action":"sign","payload":{"data":"` + b64 + `","privatekey":5}}`, `{"action":"sign","payload":{"data":"` + b64 + `","privatekey":{}}}`, `{"action":"sign","payload":{"data":"` + b64 + `","privatekey":{"kty":"RSA"}}}`,
		`{"action":"verify","payload":{"data":"` + b64 + `","publickey":null}}`, `{"action":"verify","payload":{"data":"` + b64 + `","publickey":"x"}}`, `{"action":"verify","payload":{"data":"` + b64 + `","publickey":{"kty":"EC","crv":"P-256","x":"AA","y":"AA"}}}`,
		`{"action":"correct","payload":{"data":"` + b64 + `","options":"!!!"}}`, `{"action":"correct","payload":{"data":"` + b64 + `","options":"` + base64.StdEncoding.EncodeToString([]byte("null")) + `"}}`,
		`{"action":"correct","payload":{"data":"` + b64 + `","schema":true}}`, `{"action":"correct","payload":{"data":"` + b64 + `","schema":"x"}}`,
		`{"action":"replicate","payload":{}}`, `{"action":"keygen","payload":{"x":1}}`, `{"action":"keygen"}`, `{"action":"ping"}`, `{"action":"sleep","payload":{"duration":"-5s"}}`, `{"action":"sleep","payload":{"duration":"x"}}`, `{"action":"sleep","payload":{"duration":5}}`,
		`{"action":"schemas"}`, `{"action":"schema","payload":{"path":""}}`, `{"action":"schema","payload":{"path":"../../../etc/passwd"}}`, `{"action":"schema","payload":{"path":5}}`, `{"action":"schema","payload":{"path":"` + strings.Repeat("a/", 2000) + `"}}`,
		`{"action":"regime","payload":{"code":""}}`, `{"action":"regime","payload":{"code":"../es"}}`, `{"action":"regime","payload":{"code":5}}`, `{"action":"regime","payload":{"code":"ZZ"}}`,
		`{"action":"build","payload":{"data":"` + b64 + `"}`, `{"action":"build" "payload"}`, "\x00\x01\x02", strings.Repeat("{", 5000),
	}
	c.Parallel(len(lines), func(i int) {
		var body bytes.Buffer
		body.WriteString(`{"action":"ping","req_id":"before"}` + "\n")
		body.WriteString(lines[i] + "\n")
		body.WriteString(`{"action":"ping","req_id":"after"}` + "\n")
		resp, err := server.PostStream("/bulk", &body)
		c.R.Count("bulk_protocol_cases", 1)
		c.R.Case(true, hashStrings([]string{"bulk-line", lines[i]}))
		wit := map[string]any{"line": trunc(lines[i])}
		if err != nil {
			c.R.Count("http_transport_errors", 1)
		} else {
			var buf bytes.Buffer
			_, _ = buf.ReadFrom(resp.Body)
			resp.Body.Close()
			for _, ln := range strings.Split(strings.TrimSpace(buf.String()), "\n") {
				if ln != "" && !json.Valid([]byte(ln)) {
					c.R.Fail("bulk:response-not-json", fmt.Sprintf("bulk answered %q with a line that is not JSON: %s", trunc(lines[i]), trunc(ln)), wit)
					break
				}
			}
			if !strings.Contains(buf.String(), `"before"`) {
				c.R.Fail("bulk:earlier-request-unanswered", fmt.Sprintf("the request before %q got no response", trunc(lines[i])), wit)
			}
		}
		if !server.Alive() {
			_, what := server.Crashed()
			c.R.Fail("panic:bulk-protocol:"+panicSite(what), fmt.Sprintf("the server died on bulk line %q: %s", trunc(lines[i]), trunc(what)), wit)
		}
	})
	// other routes
	for _, rq := range []struct{ method, path, body string }{{"GET", "/key", ""}, {"GET", "/zz", ""}, {"POST", "/build", ""}, {"POST", "/build", "null"}, {"POST", "/build", "[]"}, {"POST", "/build", `{"data":5}`}, {"POST", "/build", `{"data":"x","template":5}`}, {"POST", "/verify", `{"data":null,"publickey":null}`}, {"POST", "/verify", "x"}, {"POST", "/bulk", ""}, {"PUT", "/build", "{}"}, {"POST", "/key", "{}"}} {
		st, resp, err := server.Post(rq.path, []byte(rq.body), "application/json")
		_ = st
		c.R.Count("http_route_cases", 1)
		if err == nil && len(bytes.TrimSpace(resp)) > 0 && !json.Valid(resp) && rq.path != "/zz" {
			c.R.Count("http_non_json_answers(observed)", 1)
		}
		if !server.Alive() {
			_, what := server.Crashed()
			c.R.Fail("panic:http-route:"+panicSite(what), fmt.Sprintf("the server died on %s %s %q: %s", rq.method, rq.path, rq.body, trunc(what)), map[string]any{"path": rq.path, "body": rq.body})
			break
		}
	}
}

func hashStrings(ss []string) uint64 {
	h := uint64(1469598103934665603)
	for _, s := range ss {
		for i := 0; i < len(s); i++ {
			h ^= uint64(s[i])
			h *= 1099511628211
		}
		h ^= 0xff
		h *= 1099511628211
	}
	return h
}
