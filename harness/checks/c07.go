package checks

import (
	"bytes"
	"encoding/json"
	"fmt"
	"io"
	"math/rand/v2"
	"os"
	"path/filepath"
	"sort"
	"strconv"
	"strings"
	"sync"
	"testing/iotest"
	"unicode/utf8"

	"github.com/invopop/gobl/c14n"

	ref "verif/internal/c14nref"
	"verif/internal/ev"
)

// C07 — canonical JSON follows its specification.

func init() { Register("C07", runC07) }

func canonReal(in []byte) (out []byte, err error, panicked any) {
	defer func() {
		if r := recover(); r != nil {
			panicked = r
		}
	}()
	out, err = c14n.CanonicalJSON(bytes.NewReader(in))
	return
}

// chunkReader hands its data over in pieces of the given sizes (cyclically).
type chunkReader struct {
	data  []byte
	sizes []int
	i     int
}

func (r *chunkReader) Read(p []byte) (int, error) {
	if len(r.data) == 0 {
		return 0, io.EOF
	}
	n := r.sizes[r.i%len(r.sizes)]
	r.i++
	if n > len(p) {
		n = len(p)
	}
	if n > len(r.data) {
		n = len(r.data)
	}
	copy(p, r.data[:n])
	r.data = r.data[n:]
	return n, nil
}

// canonVia canonicalises through other kinds of reader: byte by byte, in
// uneven pieces, and with the end of input reported together with the data.
func canonVia(kind int, in []byte) (out []byte, err error, panicked any) {
	defer func() {
		if r := recover(); r != nil {
			panicked = r
		}
	}()
	var rd io.Reader
	switch kind {
	case 0:
		rd = iotest.OneByteReader(bytes.NewReader(in))
	case 1:
		rd = &chunkReader{data: append([]byte{}, in...), sizes: []int{7, 1, 64, 3, 509, 2}}
	default:
		rd = iotest.DataErrReader(bytes.NewReader(in))
	}
	out, err = c14n.CanonicalJSON(rd)
	return
}

const c07readerKinds = 3

type c07 struct {
	c     *Ctx
	local map[string]int64
	inj   *sync.Map // canonical bytes -> reference canonical (content id)
}

func (k *c07) cnt(s string) { k.local[s]++ }
func (k *c07) flush() {
	for a, b := range k.local {
		k.c.R.Count(a, b)
	}
	k.local = map[string]int64{}
}

func trunc(s string) string {
	if len(s) > 300 {
		return s[:300] + "…"
	}
	return s
}

func numLit(x any) (string, bool) {
	n, ok := x.(json.Number)
	return string(n), ok
}

// featureClass names what is special about a value, for failure signatures.
func featureClass(v *ref.Value) string {
	var fs []string
	seen := map[string]bool{}
	add := func(s string) {
		if !seen[s] {
			seen[s] = true
			fs = append(fs, s)
		}
	}
	var walk func(v *ref.Value)
	walk = func(v *ref.Value) {
		switch v.K {
		case ref.Num:
			if _, ok := ref.IsIntLiteral(v.Lit); !ok {
				if strings.HasPrefix(v.Lit, "-") {
					f, _ := strconv.ParseFloat(v.Lit, 64)
					if f == 0 {
						add("negative-zero")
					} else {
						add("negative-float")
					}
				} else {
					add("float")
				}
			}
		case ref.Arr:
			for _, x := range v.A {
				walk(x)
			}
		case ref.Obj:
			for i, m := range v.M {
				if m.Val.K == ref.Null {
					if i == 0 {
						add("null-first-member")
					} else {
						add("null-member")
					}
				}
				walk(m.Val)
			}
		}
	}
	walk(v)
	// one name per value: the most specific feature present
	for _, f := range []string{"null-first-member", "negative-zero", "negative-float", "null-member", "float"} {
		if seen[f] {
			return f
		}
	}
	_ = fs
	return "plain"
}

// checkValue: one value tree, several encodings.
func (k *c07) checkValue(v *ref.Value, rng *rand.Rand, what string) {
	want, werr := ref.Canon(v, false)
	wantAlt, _ := ref.Canon(v, true)
	fffd := ref.HasFFFD(v)
	styles := []ref.Style{
		{},
		{Indent: true, ExtraSpace: true},
		{Perm: func(n int) []int { return rng.Perm(n) }},
		{EscapeAll: true, SlashEsc: true, Perm: func(n int) []int { return rng.Perm(n) }},
		{EscapeAll: true, LowerHex: true, Indent: true},
	}
	var first []byte
	for si, st := range styles {
		in := ref.Encode(v, st)
		out, err, pan := canonReal([]byte(in))
		k.cnt("canonicalisations")
		if pan != nil {
			k.c.R.Fail("panic:valid-input:"+featureClass(v), fmt.Sprintf("panic %v on %s", pan, trunc(in)), map[string]any{"input": in})
			return
		}
		if werr != nil { // cannot happen for generated valid values
			continue
		}
		if err != nil {
			if fffd {
				k.cnt("fffd_rejected")
				return
			}
			k.c.R.Fail("rejects-valid:"+what+":"+featureClass(v), fmt.Sprintf("valid JSON rejected (%v): %s", err, trunc(in)), map[string]any{"input": in, "style": si})
			return
		}
		if string(out) != want && string(out) != wantAlt {
			k.c.R.Fail("form:"+what+":"+featureClass(v), fmt.Sprintf("input %s canonical form is %s, specification gives %s", trunc(in), trunc(string(out)), trunc(want)), map[string]any{"input": in, "got": string(out), "want": want, "style": si})
			return
		}
		if si == 0 {
			first = out
		} else if !bytes.Equal(first, out) {
			k.c.R.Fail("encoding-dependent:"+what+":"+featureClass(v), fmt.Sprintf("two encodings of the same value give %s and %s", trunc(string(first)), trunc(string(out))), map[string]any{"input": in, "got": string(out), "first": string(first)})
			return
		}
	}
	// properties of the canonical output itself (no reference involved)
	if !json.Valid(first) || !utf8.Valid(first) {
		k.c.R.Fail("output-invalid:"+featureClass(v), "canonical output is not valid UTF-8 JSON: "+trunc(string(first)), map[string]any{"output": string(first)})
		return
	}
	again, err, pan := canonReal(first)
	if pan != nil || err != nil || !bytes.Equal(again, first) {
		k.c.R.Fail("not-idempotent:"+featureClass(v), fmt.Sprintf("canon(canon(x)) = %s (err %v panic %v) != canon(x) = %s", trunc(string(again)), err, pan, trunc(string(first))), map[string]any{"canonical": string(first)})
		return
	}
	d := json.NewDecoder(bytes.NewReader(first))
	d.UseNumber()
	var back any
	if err := d.Decode(&back); err != nil || !ref.Equal(v, back, numLit) {
		k.c.R.Fail("parse-back:"+featureClass(v), fmt.Sprintf("canonical form %s does not parse back to the input content %s", trunc(string(first)), trunc(want)), map[string]any{"canonical": string(first), "want": want})
		return
	}
	// injectivity over everything generated in this run: same canonical bytes must mean same reference content
	if prev, loaded := k.inj.LoadOrStore(string(first), want); loaded && prev.(string) != want && prev.(string) != wantAlt {
		k.c.R.Fail("collision:"+featureClass(v), fmt.Sprintf("different contents %s and %s share canonical form %s", trunc(prev.(string)), trunc(want), trunc(string(first))), map[string]any{"canonical": string(first)})
	}
}

// checkMalformed: in must be rejected iff it is not one complete JSON value.
func (k *c07) checkMalformed(in []byte, class string) {
	valid := json.Valid(in)
	out, err, pan := canonReal(in)
	k.cnt("malformed_probes")
	if pan != nil {
		k.c.R.Fail("panic:"+class, fmt.Sprintf("panic %v on input %q", pan, trunc(string(in))), map[string]any{"input": string(in), "input_hex": fmt.Sprintf("%x", in)})
		return
	}
	if !valid && err == nil {
		k.c.R.Fail("accepts:"+class, fmt.Sprintf("input %q is not one complete JSON value but canonicalises to %s", trunc(string(in)), trunc(string(out))), map[string]any{"input": string(in), "input_hex": fmt.Sprintf("%x", in), "got": string(out)})
		return
	}
	if valid && utf8.Valid(in) && err != nil && !bytes.Contains(in, []byte("�")) && !bytes.Contains(in, []byte(`\u`)) && !hasDupKeysOrBigNums(in) {
		k.c.R.Fail("rejects-valid:"+class, fmt.Sprintf("valid JSON %q rejected: %v", trunc(string(in)), err), map[string]any{"input": string(in)})
	}
	if !valid {
		k.cnt("malformed_rejected")
	}
	// the verdict and the output may not depend on how the reader delivers the bytes
	if class == "trailing" || class == "boundary" || len(in)%64 == 0 {
		for kind := 0; kind < c07readerKinds; kind++ {
			if kind == 0 && len(in) > 5000 {
				continue // byte-by-byte delivery of long inputs costs too much; the uneven pieces cover them
			}
			o2, e2, p2 := canonVia(kind, in)
			k.cnt("reader_variants")
			switch {
			case p2 != nil:
				k.c.R.Fail("panic:reader:"+class, fmt.Sprintf("panic %v on input %q delivered by reader kind %d", p2, trunc(string(in)), kind), map[string]any{"input": string(in), "reader": kind})
			case (e2 == nil) != (err == nil) || !bytes.Equal(o2, out):
				k.c.R.Fail("reader-dependent:"+class, fmt.Sprintf("input %q (%d bytes): from memory err=%v out=%s, delivered by reader kind %d err=%v out=%s", trunc(string(in)), len(in), err, trunc(string(out)), kind, e2, trunc(string(o2))), map[string]any{"input": string(in), "reader": kind})
			}
		}
	}
}

func hasDupKeysOrBigNums(in []byte) bool {
	d := json.NewDecoder(bytes.NewReader(in))
	d.UseNumber()
	for {
		t, err := d.Token()
		if err != nil {
			return false
		}
		if n, ok := t.(json.Number); ok && ref.OutOfQuantifier(string(n)) {
			return true
		}
	}
}

var c07keys = []string{"", "a", "b", "aa", "ab", "A", "B", "Z", "_", "0", "1", "10", "2", " ", "~", "\u007f", "\u0080", "é", "é", "ß", "z", "{", "\"", "\\", "/", "\n", "\t", "\u0001", "\u001f",
	"￿", "￾", "", "퟿", "\U00010000", "\U0001F600", "\U0010FFFF", "a\U00010000", "a￿", "€", "日本", "null", "true"}

func randString(rng *rand.Rand) string {
	n := rng.IntN(6)
	var b strings.Builder
	for i := 0; i < n; i++ {
		switch rng.IntN(8) {
		case 0:
			b.WriteRune(rune(rng.IntN(0x20)))
		case 1:
			b.WriteString([]string{"\"", "\\", "/", "\u007f", "<", "&", "'"}[rng.IntN(7)])
		case 2:
			b.WriteRune(rune(0x80 + rng.IntN(0x780)))
		case 3:
			r := rune(0x800 + rng.IntN(0xF800))
			if r >= 0xD800 && r < 0xE000 || r == 0xFFFD {
				r = 0x20AC
			}
			b.WriteRune(r)
		case 4:
			b.WriteRune(rune(0x10000 + rng.IntN(0x100000)))
		default:
			b.WriteByte(byte(0x20 + rng.IntN(0x5f)))
		}
	}
	return b.String()
}

func randNumLit(rng *rand.Rand) string {
	switch rng.IntN(12) {
	case 0:
		return []string{"0", "-0", "1", "-1", "9223372036854775807", "-9223372036854775808", "-9223372036854775807", "9007199254740993", "10", "100"}[rng.IntN(10)]
	case 1:
		return strconv.FormatInt(int64(rng.Uint64()), 10)
	case 2:
		return strconv.FormatInt(rng.Int64N(2000)-1000, 10)
	case 3:
		return []string{"0.0", "-0.0", "0.00", "-0.0e0", "1.0", "-1.0", "1.50", "-1.5", "-0.01", "0.1", "-0.1", "123.4", "1e0", "1E2", "-1e2", "1e-2", "-1E-2", "1.5e+3", "0e0", "-0e5", "5e-324", "1.7976931348623157e308", "-1.7976931348623157E+308", "1e21", "1e-7", "0.000001", "123456789.123456789", "100.0", "1.10"}[rng.IntN(29)]
	case 4, 5:
		// decimal literal
		s := strconv.FormatInt(rng.Int64N(100000), 10) + "." + fmt.Sprintf("%0*d", 1+rng.IntN(6), rng.IntN(1000))
		if rng.IntN(2) == 0 {
			s = "-" + s
		}
		return s
	case 6, 7:
		s := strconv.FormatInt(1+rng.Int64N(9999), 10)
		if rng.IntN(2) == 0 {
			s += "." + strconv.Itoa(rng.IntN(1000))
		}
		ex := rng.IntN(40)
		if rng.IntN(3) == 0 {
			// three-digit exponents, incl. those with zeros in any position
			ex = []int{100, 101, 109, 110, 200, 205, 210, 290, 300, 303}[rng.IntN(10)] + rng.IntN(5)
		}
		e := []string{"e", "E"}[rng.IntN(2)] + []string{"", "+", "-"}[rng.IntN(3)] + strconv.Itoa(ex)
		if rng.IntN(2) == 0 {
			s = "-" + s
		}
		return s + e
	default:
		return strconv.FormatInt(rng.Int64N(1000000), 10)
	}
}

func randValue(rng *rand.Rand, depth int) *ref.Value {
	k := rng.IntN(10)
	if depth <= 0 && k >= 6 {
		k = rng.IntN(6)
	}
	switch k {
	case 0:
		return &ref.Value{K: ref.Null}
	case 1:
		return &ref.Value{K: ref.Bool, B: rng.IntN(2) == 0}
	case 2, 3:
		return &ref.Value{K: ref.Num, Lit: randNumLit(rng)}
	case 4, 5:
		return &ref.Value{K: ref.Str, S: randString(rng)}
	case 6, 7:
		n := rng.IntN(5)
		v := &ref.Value{K: ref.Arr}
		for i := 0; i < n; i++ {
			if rng.IntN(5) == 0 {
				v.A = append(v.A, &ref.Value{K: ref.Null})
			} else {
				v.A = append(v.A, randValue(rng, depth-1))
			}
		}
		return v
	default:
		n := rng.IntN(6)
		v := &ref.Value{K: ref.Obj}
		used := map[string]bool{}
		for i := 0; i < n; i++ {
			var key string
			if rng.IntN(2) == 0 {
				key = c07keys[rng.IntN(len(c07keys))]
			} else {
				key = randString(rng)
			}
			if used[key] {
				continue
			}
			used[key] = true
			var val *ref.Value
			if rng.IntN(4) == 0 {
				val = &ref.Value{K: ref.Null}
			} else {
				val = randValue(rng, depth-1)
			}
			v.M = append(v.M, ref.Member{Key: key, Val: val})
		}
		return v
	}
}

func runC07(c *Ctx) {
	c.R.Rule("values: every Unicode scalar value as a one-character string and key (raw and escaped), all ordered pairs of a 42-key alphabet, random trees to depth 6 each in 5 encodings; malformed: every proper prefix of valid documents, trailing data, bad escapes, raw invalid UTF-8. non-trivial = a value that is not a bare scalar literal, or a malformed probe; distinct by reference canonical form / input bytes")
	c.R.Assume("reference: harness/internal/c14nref written from c14n/README.md; number literal is an integer iff no fraction/exponent and fits int64, else float64 (README example 0.0 -> 0.0E0); -0.0 may render as 0.0E0 or -0.0E0; strings containing U+FFFD may be rejected")
	c.R.Assume("encoding/json.Valid decides 'one complete JSON value'; integers beyond int64 and magnitudes beyond float64 are outside the quantifier (observed only)")
	inj := &sync.Map{}

	// (1) every Unicode scalar value, as value and as key
	const maxRune = 0x110000
	blocks := 272 // 0x110000 / 0x1000
	c.Parallel(blocks, func(bi int) {
		k := &c07{c: c, local: map[string]int64{}, inj: inj}
		rng := c.Rand(uint64(bi))
		var n, d int64
		for r := rune(bi * 0x1000); r < rune((bi+1)*0x1000) && r < maxRune; r++ {
			if r >= 0xD800 && r < 0xE000 {
				continue
			}
			s := string(r)
			k.checkValue(&ref.Value{K: ref.Str, S: s}, rng, "string")
			k.checkValue(&ref.Value{K: ref.Obj, M: []ref.Member{{Key: s, Val: &ref.Value{K: ref.Num, Lit: "1"}}, {Key: "mm", Val: &ref.Value{K: ref.Bool, B: true}}}}, rng, "key")
			n += 2
			d += 2
		}
		c.R.Cases(n, d)
		k.cnt("unicode_scalars_done")
		k.flush()
	})
	c.R.Set("exhaustive_single_char", "all 1112064 Unicode scalar values as string value and as object key, raw and \\u-escaped")

	// (2) all ordered pairs (and a triple) of the key alphabet
	c.Parallel(len(c07keys), func(i int) {
		k := &c07{c: c, local: map[string]int64{}, inj: inj}
		rng := c.Rand(uint64(5000 + i))
		var n int64
		for j := range c07keys {
			if i == j || c07keys[i] == c07keys[j] || c07keys[i] == "zz" || c07keys[j] == "zz" {
				continue
			}
			v := &ref.Value{K: ref.Obj, M: []ref.Member{
				{Key: c07keys[i], Val: &ref.Value{K: ref.Num, Lit: "1"}},
				{Key: c07keys[j], Val: &ref.Value{K: ref.Num, Lit: "2"}},
			}}
			k.checkValue(v, rng, "key-order")
			// with a null in first / last position
			v2 := &ref.Value{K: ref.Obj, M: []ref.Member{
				{Key: c07keys[i], Val: &ref.Value{K: ref.Null}},
				{Key: c07keys[j], Val: &ref.Value{K: ref.Num, Lit: "2"}},
				{Key: "zz", Val: &ref.Value{K: ref.Null}},
			}}
			k.checkValue(v2, rng, "null-members")
			n += 2
		}
		c.R.Cases(n, n)
		k.flush()
	})

	// (3) random trees
	nTrees := c.N(60_000, 3_000_000)
	chunks := 64
	var sampleMu sync.Mutex
	c.Parallel(chunks, func(i int) {
		k := &c07{c: c, local: map[string]int64{}, inj: inj}
		rng := c.Rand(uint64(10000 + i))
		for j := 0; j < nTrees/chunks; j++ {
			v := randValue(rng, 1+rng.IntN(6))
			if hasOutOfQuantifier(v) {
				k.cnt("out_of_quantifier_numbers")
				in := ref.Encode(v, ref.Style{})
				if _, _, pan := canonReal([]byte(in)); pan != nil {
					k.c.R.Fail("panic:valid-input:big-number", fmt.Sprintf("panic %v on %s", pan, trunc(in)), map[string]any{"input": in})
				}
				continue
			}
			k.checkValue(v, rng, "tree")
			w, _ := ref.Canon(v, false)
			c.R.Case(v.K == ref.Arr || v.K == ref.Obj || v.K == ref.Str || (v.K == ref.Num && strings.ContainsAny(v.Lit, ".eE")), ev.Hash(w))
			if j < 1 {
				sampleMu.Lock()
				c.R.Sample(map[string]any{"input": trunc(ref.Encode(v, ref.Style{Indent: false})), "canonical": trunc(w)})
				sampleMu.Unlock()
			}
		}
		k.flush()
	})

	// (4) malformed inputs
	var docs [][]byte
	for _, v := range []string{`{"a":1,"b":[1,2,{"c":null}],"d":"x\ny","e":1.5e3,"f":true}`, `[1,2]`, `{}`, `[]`, `"abc"`, `12`, `-1.5`, `true`, `null`, `{"a":{"b":{"c":[[],{}]}}}`, `["é😀"]`} {
		docs = append(docs, []byte(v))
	}
	files, _ := filepath.Glob(filepath.Join(ev.Repo(), "examples/es/out/*.json"))
	sort.Strings(files)
	for i, f := range files {
		if i >= c.N(3, 25) {
			break
		}
		if b, err := os.ReadFile(f); err == nil {
			var buf bytes.Buffer
			if json.Compact(&buf, b) == nil {
				docs = append(docs, buf.Bytes())
			}
		}
	}
	rngM := c.Rand(999)
	for i := 0; i < c.N(150, 1500); i++ {
		docs = append(docs, []byte(ref.Encode(randValue(rngM, 4), ref.Style{})))
	}
	c.Parallel(len(docs), func(i int) {
		k := &c07{c: c, local: map[string]int64{}, inj: inj}
		d := docs[i]
		var n int64
		step := 1
		if len(d) > 3000 {
			step = len(d) / 3000
		}
		for p := 0; p < len(d); p += step {
			k.checkMalformed(d[:p], prefixClass(d[:p]))
			n++
		}
		for _, tail := range []string{" {}", "{}", ",", "]", "}", " 1", "x", "\x00", " null", "\"", "[", "//c", " \n\t "} {
			k.checkMalformed(append(append([]byte{}, d...), tail...), "trailing")
			n++
		}
		c.R.Cases(n, n)
		k.flush()
	})
	// values whose length sits on and around the read-ahead sizes of buffered
	// decoders, followed by trailing data
	kb := &c07{c: c, local: map[string]int64{}, inj: inj}
	bsizes := []int{256, 512, 1024, 2048, 4096}
	if c.Thorough {
		bsizes = append(bsizes, 8192, 16384, 32768, 65536)
	}
	for _, size := range bsizes {
		for delta := -2; delta <= 2; delta++ {
			n := size + delta
			for form := 0; form < 3; form++ {
				var d []byte
				switch form {
				case 0:
					d = []byte(`["` + strings.Repeat("a", n-4) + `"]`)
				case 1:
					d = []byte(`{"k":` + strings.Repeat(" ", n-7) + `1}`)
				default:
					d = []byte(`[1]` + strings.Repeat(" ", n-3))
				}
				kb.checkMalformed(d, "boundary")
				for _, tail := range []string{"x", ",", "}", "]", "1", " 1", "null", `{"b":2}`, `"more"`, "\x00"} {
					kb.checkMalformed(append(append([]byte{}, d...), tail...), "boundary")
				}
				c.R.Cases(11, 11)
			}
		}
	}
	kb.flush()
	fixed := map[string][]string{
		"empty":        {"", " ", "\n\t", "\xef\xbb\xbf"},
		"bad-escape":   {`"\x"`, `"\u12"`, `"\u12G4"`, `"\`, `"\uD800"`, `"\uDC00\uD800"`, `["\uD800x"]`},
		"bad-syntax":   {`{a:1}`, `{'a':1}`, `[1 2]`, `{"a" 1}`, `{"a":1 "b":2}`, `[1,]`, `{"a":1,}`, `{,}`, `[,1]`, `{"a"}`, `{"a":}`, `{1:2}`, `{null:1}`, `[01]`, `[1.]`, `[.5]`, `[+1]`, `[1e]`, `[--1]`, `[0x10]`, `[NaN]`, `[Infinity]`, `tru`, `nul`, `[truee]`, `{"a":1}}`, `[[1]`, `[1]]`, `{"a":[}`, `{"a":{]}`},
		"invalid-utf8": {"\"\xff\"", "[\"a\xc3\"]", "{\"\xc0\x80\":1}", "\"\xed\xa0\x80\"", "\"\xf4\x90\x80\x80\"", "{\"k\":\"\x80\"}"},
		"control-raw":  {"\"a\nb\"", "\"a\tb\"", "\"\x00\"", "[\"\x1f\"]"},
	}
	k := &c07{c: c, local: map[string]int64{}, inj: inj}
	for class, list := range fixed {
		for _, s := range list {
			if class == "invalid-utf8" {
				// json.Valid accepts invalid UTF-8 inside strings; the specification rejects it
				out, err, pan := canonReal([]byte(s))
				k.cnt("malformed_probes")
				if pan != nil {
					c.R.Fail("panic:invalid-utf8", fmt.Sprintf("panic %v on %q", pan, s), map[string]any{"input_hex": fmt.Sprintf("%x", s)})
				} else if err == nil {
					c.R.Fail("accepts:invalid-utf8", fmt.Sprintf("input %q has invalid UTF-8 but canonicalises to %q", s, out), map[string]any{"input_hex": fmt.Sprintf("%x", s), "got": string(out)})
				}
				c.R.Case(true, ev.Hash("m", s))
				continue
			}
			k.checkMalformed([]byte(s), class)
			c.R.Case(true, ev.Hash("m", s))
		}
	}
	k.flush()
	c.R.Sample(map[string]any{"malformed_input": `{"a"`, "expected": "error"})
	c.Require("canonicalisations", "malformed_rejected", "reader_variants", "unicode_scalars_done")
}

func hasOutOfQuantifier(v *ref.Value) bool {
	switch v.K {
	case ref.Num:
		return ref.OutOfQuantifier(v.Lit)
	case ref.Arr:
		for _, x := range v.A {
			if hasOutOfQuantifier(x) {
				return true
			}
		}
	case ref.Obj:
		for _, m := range v.M {
			if hasOutOfQuantifier(m.Val) {
				return true
			}
		}
	}
	return false
}

func prefixClass(p []byte) string {
	if len(bytes.TrimSpace(p)) == 0 {
		return "empty"
	}
	// what is open at the cut
	depthObj, depthArr := 0, 0
	inStr := false
	esc := false
	for _, b := range p {
		if inStr {
			if esc {
				esc = false
			} else if b == '\\' {
				esc = true
			} else if b == '"' {
				inStr = false
			}
			continue
		}
		switch b {
		case '"':
			inStr = true
		case '{':
			depthObj++
		case '}':
			depthObj--
		case '[':
			depthArr++
		case ']':
			depthArr--
		}
	}
	switch {
	case inStr:
		return "truncated-in-string"
	case depthObj > 0 && depthArr > 0:
		return "truncated-in-nested"
	case depthObj > 0:
		return "truncated-in-object"
	case depthArr > 0:
		return "truncated-in-array"
	}
	return "truncated-scalar"
}
