package checks

import (
	"github.com/invopop/gobl/schema"
	"bytes"
	"encoding/json"
	"fmt"
	"io/fs"
	"os"
	"os/exec"
	"path/filepath"
	"sort"
	"strings"
	"time"

	"github.com/invopop/gobl/currency"
	"github.com/invopop/gobl/tax"

	"verif/internal/ev"
	"verif/internal/srv"
)

// C19 — published definition files are what the code defines, and coherent.
//
// Monitor: the four real generator programs are built from the working tree
// and run in a scratch copy whose data/ directories were emptied; their output
// is compared byte for byte with /repo/data in both directions. Registered
// definitions are validated and their cross references resolved.

func init() { Register("C19", runC19) }

func runCmd(dir string, timeout time.Duration, name string, args ...string) (string, error) {
	cmd := exec.Command(name, args...)
	cmd.Dir = dir
	var buf bytes.Buffer
	cmd.Stdout = &buf
	cmd.Stderr = &buf
	if err := cmd.Start(); err != nil {
		return "", err
	}
	done := make(chan error, 1)
	go func() { done <- cmd.Wait() }()
	select {
	case err := <-done:
		return buf.String(), err
	case <-time.After(timeout):
		_ = cmd.Process.Kill()
		return buf.String(), fmt.Errorf("timeout after %s", timeout)
	}
}

func listFiles(root string) map[string]string {
	out := map[string]string{}
	_ = filepath.WalkDir(root, func(p string, d fs.DirEntry, err error) error {
		if err != nil || d.IsDir() {
			return nil
		}
		rel, _ := filepath.Rel(root, p)
		out[rel] = p
		return nil
	})
	return out
}

func runC19(c *Ctx) {
	c.R.Rule("exhaustive: every file under data/{regimes,addons,catalogues,schemas} and currency/codes.go compared byte for byte with fresh generator output (both directions); every registered regime/addon/catalogue definition validated and its references resolved. non-trivial = a generated file or a definition; distinct by file / definition key")
	c.R.Assume("generators are the repository's own programs (regimes|addons|catalogues|schema|currency/generate.go) built from the working tree; the catalogue generator re-emits what was loaded from the embedded file, so for catalogues the comparison checks serialisation stability only")
	repo := ev.Repo()
	bin := filepath.Join(ev.Root(), "bin")
	gens := []struct{ name, src string }{
		{"gen-schema", "./schema/generate.go"},
		{"gen-regimes", "./regimes/generate.go"},
		{"gen-addons", "./addons/generate.go"},
		{"gen-catalogues", "./catalogues/generate.go"},
		{"gen-currency", "./currency/generate.go"},
	}
	for _, g := range gens {
		if out, err := runCmd(repo, 5*time.Minute, "go", "build", "-o", filepath.Join(bin, g.name), g.src); err != nil {
			c.R.Inconclusive("build-generator:" + g.name)
			c.R.Set("build_output_"+g.name, trunc(out))
			return
		}
	}
	scratch, err := os.MkdirTemp("", "verif-c19-")
	if err != nil {
		c.R.Inconclusive("scratch:" + err.Error())
		return
	}
	defer os.RemoveAll(scratch)
	if out, err := runCmd("/", 2*time.Minute, "rsync", "-a", "--exclude", ".git", repo+"/", scratch+"/"); err != nil {
		c.R.Inconclusive("rsync:" + trunc(out))
		return
	}
	dirs := []string{"regimes", "addons", "catalogues", "schemas"}
	for _, d := range dirs {
		_ = os.RemoveAll(filepath.Join(scratch, "data", d))
		_ = os.MkdirAll(filepath.Join(scratch, "data", d), 0o755)
	}
	_ = os.Remove(filepath.Join(scratch, "currency", "codes.go"))
	for _, g := range gens {
		if out, err := runCmd(scratch, 5*time.Minute, filepath.Join(bin, g.name)); err != nil {
			c.R.Fail("generator-fails:"+g.name, trunc(out), g.name)
		}
	}
	// compare both directions
	var nfiles int64
	for _, d := range append(dirs, "currency-code") {
		var shipped, fresh map[string]string
		if d == "currency-code" {
			shipped = map[string]string{"codes.go": filepath.Join(repo, "currency", "codes.go")}
			fresh = map[string]string{}
			if _, err := os.Stat(filepath.Join(scratch, "currency", "codes.go")); err == nil {
				fresh["codes.go"] = filepath.Join(scratch, "currency", "codes.go")
			}
		} else {
			shipped = listFiles(filepath.Join(repo, "data", d))
			fresh = listFiles(filepath.Join(scratch, "data", d))
		}
		var names []string
		for n := range shipped {
			names = append(names, n)
		}
		for n := range fresh {
			if _, ok := shipped[n]; !ok {
				names = append(names, n)
			}
		}
		sort.Strings(names)
		for _, n := range names {
			nfiles++
			key := d + "/" + n
			sp, okS := shipped[n]
			fp, okF := fresh[n]
			switch {
			case okS && !okF:
				c.R.Fail("orphan:"+key, "shipped file data/"+key+" is not produced by any generator", key)
			case !okS && okF:
				c.R.Fail("missing:"+key, "generator produces data/"+key+" which is not shipped", key)
			default:
				a, _ := os.ReadFile(sp)
				b, _ := os.ReadFile(fp)
				if d == "currency-code" && !bytes.Equal(a, b) {
					// a gofmt'ed copy of the template output is equally acceptable
					if out, err := runCmd(scratch, time.Minute, "gofmt", fp); err == nil {
						b = []byte(out)
					}
				}
				if !bytes.Equal(a, b) {
					c.R.Fail("differs:"+key, "shipped "+key+" differs from generator output: "+firstDiff(a, b), key)
				}
			}
			c.R.Case(true, ev.Hash("file", key))
			if nfiles%40 == 1 {
				c.R.Sample(map[string]any{"file": key, "compared": "shipped vs regenerated"})
			}
		}
		c.R.Count("files_compared:"+d, int64(len(names)))
	}

	// definitions validate and are coherent
	pubTagsAll := map[string]bool{}
	pubExt := map[string]bool{}
	type pub struct {
		kind, key string
		raw       map[string]any
	}
	var pubs []pub
	for _, d := range []string{"regimes", "addons", "catalogues"} {
		for n, p := range listFiles(filepath.Join(repo, "data", d)) {
			b, _ := os.ReadFile(p)
			var raw map[string]any
			if json.Unmarshal(b, &raw) != nil {
				c.R.Fail("unreadable:"+d+"/"+n, "not JSON", n)
				continue
			}
			pubs = append(pubs, pub{d, strings.TrimSuffix(n, ".json"), raw})
			for _, e := range asList(raw["extensions"]) {
				if m, ok := e.(map[string]any); ok {
					pubExt[fmt.Sprint(m["key"])] = true
				}
			}
			for _, ts := range asList(raw["tags"]) {
				if m, ok := ts.(map[string]any); ok {
					for _, t := range asList(m["list"]) {
						if tm, ok := t.(map[string]any); ok {
							pubTagsAll[fmt.Sprint(tm["key"])] = true
						}
					}
				}
			}
		}
	}
	invoiceTypes := map[string]bool{"standard": true, "proforma": true, "corrective": true, "credit-note": true, "debit-note": true, "other": true}
	for _, p := range pubs {
		if p.kind == "catalogues" {
			continue
		}
		own := map[string]map[string]bool{}
		for _, ts := range asList(p.raw["tags"]) {
			if m, ok := ts.(map[string]any); ok {
				s := fmt.Sprint(m["schema"])
				if own[s] == nil {
					own[s] = map[string]bool{}
				}
				for _, t := range asList(m["list"]) {
					if tm, ok := t.(map[string]any); ok {
						own[s][fmt.Sprint(tm["key"])] = true
					}
				}
			}
		}
		cats := map[string]bool{}
		for _, cat := range asList(p.raw["categories"]) {
			if m, ok := cat.(map[string]any); ok {
				cats[fmt.Sprint(m["code"])] = true
			}
		}
		for _, ss := range asList(p.raw["scenarios"]) {
			sm, ok := ss.(map[string]any)
			if !ok {
				continue
			}
			schema := fmt.Sprint(sm["schema"])
			for _, sc := range asList(sm["list"]) {
				scm, _ := sc.(map[string]any)
				for _, t := range asList(scm["tags"]) {
					tag := fmt.Sprint(t)
					defined := own[schema][tag]
					if p.kind == "addons" && !defined {
						defined = pubTagsAll[tag] // an addon may build on the tags of the regimes it is used with
					}
					if !defined {
						c.R.Fail(fmt.Sprintf("dangling:%s/%s:scenario-tag:%s", p.kind, p.key, tag), fmt.Sprintf("%s/%s: scenario for %s is triggered by tag %q which the definition does not offer", p.kind, p.key, schema, tag), map[string]any{"file": p.kind + "/" + p.key + ".json", "tag": tag})
					}
					c.R.Count("refs_resolved:scenario-tag", 1)
				}
				for _, t := range asList(scm["type"]) {
					if !invoiceTypes[fmt.Sprint(t)] {
						c.R.Fail(fmt.Sprintf("dangling:%s/%s:scenario-type:%v", p.kind, p.key, t), "scenario refers to undefined invoice type", fmt.Sprint(t))
					}
					c.R.Count("refs_resolved:scenario-type", 1)
				}
				if k, ok := scm["ext_key"].(string); ok && k != "" {
					if !pubExt[k] {
						c.R.Fail(fmt.Sprintf("dangling:%s/%s:scenario-ext:%s", p.kind, p.key, k), "scenario refers to undefined extension", k)
					}
					c.R.Count("refs_resolved:scenario-ext", 1)
				}
				if em, ok := scm["ext"].(map[string]any); ok {
					for k := range em {
						if !pubExt[k] {
							c.R.Fail(fmt.Sprintf("dangling:%s/%s:scenario-ext:%s", p.kind, p.key, k), "scenario sets undefined extension", k)
						}
						c.R.Count("refs_resolved:scenario-ext", 1)
					}
				}
			}
		}
		for _, co := range asList(p.raw["corrections"]) {
			cm, _ := co.(map[string]any)
			for _, t := range asList(cm["types"]) {
				if !invoiceTypes[fmt.Sprint(t)] {
					c.R.Fail(fmt.Sprintf("dangling:%s/%s:correction-type:%v", p.kind, p.key, t), "correction refers to undefined invoice type", fmt.Sprint(t))
				}
				c.R.Count("refs_resolved:correction-type", 1)
			}
			for _, e := range asList(cm["extensions"]) {
				if !pubExt[fmt.Sprint(e)] {
					c.R.Fail(fmt.Sprintf("dangling:%s/%s:correction-ext:%v", p.kind, p.key, e), "correction refers to undefined extension", fmt.Sprint(e))
				}
				c.R.Count("refs_resolved:correction-ext", 1)
			}
		}
		for _, cat := range asList(p.raw["categories"]) {
			cm, _ := cat.(map[string]any)
			for _, e := range asList(cm["extensions"]) {
				if !pubExt[fmt.Sprint(e)] {
					c.R.Fail(fmt.Sprintf("dangling:%s/%s:category-ext:%v", p.kind, p.key, e), "category refers to undefined extension", fmt.Sprint(e))
				}
				c.R.Count("refs_resolved:category-ext", 1)
			}
			for _, r := range asList(cm["rates"]) {
				rm, _ := r.(map[string]any)
				check := func(m any) {
					if em, ok := m.(map[string]any); ok {
						for k := range em {
							if !pubExt[k] {
								c.R.Fail(fmt.Sprintf("dangling:%s/%s:rate-ext:%s", p.kind, p.key, k), "rate refers to undefined extension", k)
							}
							c.R.Count("refs_resolved:rate-ext", 1)
						}
					}
				}
				check(rm["ext"])
				for _, v := range asList(rm["values"]) {
					if vm, ok := v.(map[string]any); ok {
						check(vm["ext"])
					}
				}
			}
		}
	}

	for _, rd := range tax.AllRegimeDefs() {
		key := rd.Country.String()
		if p, _ := Safely(func() {
			if err := rd.Validate(); err != nil {
				c.R.Fail("invalid-def:regime:"+key, err.Error(), key)
			}
		}); p != nil {
			c.R.Fail("invalid-def:regime:"+key, fmt.Sprintf("panic %v", p), key)
		}
		if currency.Get(rd.Currency) == nil {
			c.R.Fail("dangling:regime:"+key+":currency", "unknown currency "+rd.Currency.String(), key)
		}
		if _, err := time.LoadLocation(rd.TimeZone); err != nil || rd.TimeZone == "" {
			c.R.Fail("dangling:regime:"+key+":time-zone", fmt.Sprintf("time zone %q: %v", rd.TimeZone, err), key)
		}
		c.R.Case(true, ev.Hash("regime", key))
	}
	for _, ad := range tax.AllAddonDefs() {
		key := ad.Key.String()
		if p, _ := Safely(func() {
			if err := ad.Validate(); err != nil {
				c.R.Fail("invalid-def:addon:"+key, err.Error(), key)
			}
		}); p != nil {
			c.R.Fail("invalid-def:addon:"+key, fmt.Sprintf("panic %v", p), key)
		}
		for _, req := range ad.Requires {
			if tax.AddonForKey(req) == nil {
				c.R.Fail("dangling:addon:"+key+":requires:"+req.String(), "required addon is not registered", key)
			}
		}
		c.R.Case(true, ev.Hash("addon", key))
	}
	for _, cd := range tax.AllCatalogueDefs() {
		key := cd.Key.String()
		for _, e := range cd.Extensions {
			if p, _ := Safely(func() {
				if err := e.Validate(); err != nil {
					c.R.Fail("invalid-def:catalogue:"+key+":"+e.Key.String(), err.Error(), key)
				}
			}); p != nil {
				c.R.Fail("invalid-def:catalogue:"+key, fmt.Sprintf("panic %v", p), key)
			}
		}
		c.R.Case(true, ev.Hash("catalogue", key))
	}
	c19served(c)
	c.R.Set("registered", map[string]int{"regimes": len(tax.AllRegimeDefs()), "addons": len(tax.AllAddonDefs()), "catalogues": len(tax.AllCatalogueDefs())})
	c.R.Exhaustive(true)
	c19afterUse(c)
	c.Require("definitions_compared_in_process:after use", "files_compared:schemas", "files_compared:regimes", "served_files_compared")
}

func asList(v any) []any {
	l, _ := v.([]any)
	return l
}

func firstDiff(a, b []byte) string {
	la := strings.Split(string(a), "\n")
	lb := strings.Split(string(b), "\n")
	for i := 0; i < len(la) || i < len(lb); i++ {
		x, y := "", ""
		if i < len(la) {
			x = la[i]
		}
		if i < len(lb) {
			y = lb[i]
		}
		if x != y {
			return fmt.Sprintf("line %d: shipped %q vs generated %q", i+1, trunc(x), trunc(y))
		}
	}
	return "no line difference"
}

// c19served: what the running CLI serves (bulk actions "regime", "schema",
// "schemas") is exactly the shipped files.
// c19afterUse: the definitions registered in this process, serialised the way
// the generators serialise them, must still equal the published files after the
// library has been used (every work item of the concurrency check through
// calculate, validate, sign, correct, correction options, replicate): what the
// code defines must not depend on what the process handled before.
func c19afterUse(c *Ctx) {
	compare := func(when string) {
		for _, rd := range tax.AllRegimeDefs() {
			b, err := c19asGenerated(rd)
			file := filepath.Join(ev.Repo(), "data", "regimes", strings.ToLower(rd.Country.String())+".json")
			disk, derr := os.ReadFile(file)
			var x, y any
			if err != nil || derr != nil || json.Unmarshal(b, &x) != nil || json.Unmarshal(disk, &y) != nil {
				continue
			}
			c.R.Count("definitions_compared_in_process:"+when, 1)
			if !jsonEqual(x, y) {
				_, det := firstJSONDiff(disk, b)
				c.R.Fail("in-process-differs:"+when+":regimes/"+strings.ToLower(rd.Country.String()), fmt.Sprintf("the registered definition of regime %s, %s, differs from data/regimes: %s", rd.Country, when, det), map[string]any{"regime": rd.Country.String(), "when": when})
			}
		}
		for _, ad := range tax.AllAddonDefs() {
			b, err := c19asGenerated(ad)
			file := filepath.Join(ev.Repo(), "data", "addons", ad.Key.String()+".json")
			disk, derr := os.ReadFile(file)
			var x, y any
			if err != nil || derr != nil || json.Unmarshal(b, &x) != nil || json.Unmarshal(disk, &y) != nil {
				continue
			}
			c.R.Count("definitions_compared_in_process:"+when, 1)
			if !jsonEqual(x, y) {
				_, det := firstJSONDiff(disk, b)
				c.R.Fail("in-process-differs:"+when+":addons/"+ad.Key.String(), fmt.Sprintf("the registered definition of addon %s, %s, differs from data/addons: %s", ad.Key, when, det), map[string]any{"addon": ad.Key.String(), "when": when})
			}
		}
	}
	compare("before use")
	work := c15workList()
	for _, w := range work {
		_ = c15pipeline(w.Doc, func() {})
	}
	c.R.Count("documents_used_before_second_comparison", int64(len(work)))
	compare("after use")
}

// c19asGenerated serialises a definition the way the repository's generators do
// (wrapped in a schema object, which adds the $schema member).
func c19asGenerated(def any) ([]byte, error) {
	doc, err := schema.NewObject(def)
	if err != nil {
		return nil, err
	}
	return json.Marshal(doc)
}

func c19served(c *Ctx) {
	gbin := filepath.Join(ev.Root(), "bin", "gobl")
	if _, err := os.Stat(gbin); err != nil {
		c.R.Inconclusive("no-cli-binary")
		return
	}
	server, err := srv.Start(gbin)
	if err != nil {
		c.R.Inconclusive("server-start:" + err.Error())
		return
	}
	defer server.Stop()
	repo := ev.Repo()
	type want struct {
		id   string
		file string
	}
	var reqs []map[string]any
	var wants []want
	for n, p := range listFiles(filepath.Join(repo, "data", "regimes")) {
		code := strings.TrimSuffix(n, ".json")
		id := "regime:" + code
		reqs = append(reqs, map[string]any{"action": "regime", "req_id": id, "payload": map[string]any{"code": strings.ToUpper(code)}})
		wants = append(wants, want{id, p})
	}
	for n, p := range listFiles(filepath.Join(repo, "data", "schemas")) {
		id := "schema:" + n
		reqs = append(reqs, map[string]any{"action": "schema", "req_id": id, "payload": map[string]any{"path": strings.TrimSuffix(n, ".json")}})
		wants = append(wants, want{id, p})
	}
	var body bytes.Buffer
	for _, r := range reqs {
		b, _ := json.Marshal(r)
		body.Write(b)
		body.WriteByte('\n')
	}
	resp, err := server.PostStream("/bulk", &body)
	if err != nil {
		c.R.Inconclusive("bulk-transport:" + err.Error())
		return
	}
	rs, _ := readBulk(resp.Body)
	resp.Body.Close()
	got := map[string]bulkResp{}
	for _, r := range rs {
		if !r.IsFinal {
			got[r.ReqID] = r
		}
	}
	for _, w := range wants {
		r, ok := got[w.id]
		disk, _ := os.ReadFile(w.file)
		switch {
		case !ok:
			c.R.Fail("served-missing:"+strings.SplitN(w.id, ":", 2)[0], "no response for "+w.id, w.id)
		case len(r.Error) > 0 && string(r.Error) != "null":
			c.R.Fail("served-error:"+w.id, "the server cannot serve the shipped file "+w.id+": "+trunc(string(r.Error)), w.id)
		default:
			var a, b any
			if json.Unmarshal(r.Payload, &a) != nil || json.Unmarshal(disk, &b) != nil || !jsonEqual(a, b) {
				c.R.Fail("served-differs:"+w.id, "the file served for "+w.id+" differs from the shipped file", w.id)
			}
		}
		c.R.Case(true, ev.Hash("served", w.id))
	}
	c.R.Count("served_files_compared", int64(len(wants)))
}

func jsonEqual(a, b any) bool {
	x, _ := json.Marshal(a)
	y, _ := json.Marshal(b)
	return bytes.Equal(x, y)
}
