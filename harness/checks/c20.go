package checks

import (
	"sync/atomic"
	"encoding/json"
	"fmt"
	"math/rand/v2"
	"sort"
	"strings"

	"github.com/invopop/gobl/cal"
	"github.com/invopop/gobl/cbc"
	"github.com/invopop/gobl/currency"
	"github.com/invopop/gobl/l10n"
	"github.com/invopop/gobl/num"
	"github.com/invopop/gobl/tax"

	"verif/internal/dec"
	"verif/internal/ev"
	"verif/internal/gx"
	"verif/internal/jmut"
	"verif/internal/walk"
)

// C20 — tax summaries combine component-wise; payment totals add up.

func init() { Register("C20", runC20) }

// ---- JSON view of a summary and the component-wise oracle -----------------

type sumRateJSON struct {
	Key       string            `json:"key,omitempty"`
	Country   string            `json:"country,omitempty"`
	Ext       map[string]string `json:"ext,omitempty"`
	Base      string            `json:"base"`
	Percent   *string           `json:"percent,omitempty"`
	Surcharge *struct {
		Percent string `json:"percent"`
		Amount  string `json:"amount"`
	} `json:"surcharge,omitempty"`
	Amount string `json:"amount"`
}

type sumCatJSON struct {
	Code      string        `json:"code"`
	Retained  bool          `json:"retained,omitempty"`
	Rates     []sumRateJSON `json:"rates"`
	Amount    string        `json:"amount"`
	Surcharge *string       `json:"surcharge,omitempty"`
}

type sumJSON struct {
	Categories []sumCatJSON `json:"categories,omitempty"`
	Sum        string       `json:"sum"`
}

type cGroup struct {
	base, amount dec.D
	sur          *dec.D
}

type cCat struct {
	retained bool
	amount   dec.D
	sur      *dec.D
	groups   map[string]*cGroup
}

type cSum struct {
	cats map[string]*cCat
	sum  dec.D
	dups []string // duplicate categories / group keys (a summary must not have any)
}

func normPct(s string) string {
	d, ok := dec.Parse(s)
	if !ok {
		return "?" + s
	}
	// value-normalised: strip trailing zeros
	t := strings.TrimRight(strings.TrimRight(d.String(), "0"), ".")
	if !strings.Contains(d.String(), ".") {
		t = d.String()
	}
	return t
}

func groupKey(r sumRateJSON) string {
	if r.Percent == nil {
		return fmt.Sprintf("exempt|%s|%s", r.Country, J(sortedExt(r.Ext)))
	}
	s := "-"
	if r.Surcharge != nil {
		s = normPct(r.Surcharge.Percent)
	}
	return fmt.Sprintf("%s|%s|%s|%s", r.Country, normPct(*r.Percent), s, J(sortedExt(r.Ext)))
}

func sortedExt(m map[string]string) []string {
	var out []string
	for k, v := range m {
		out = append(out, k+"="+v)
	}
	sort.Strings(out)
	return out
}

func mustD(s string) dec.D {
	d, ok := dec.Parse(s)
	if !ok {
		return dec.Zero(0)
	}
	return d
}

func toCSum(s *sumJSON) *cSum {
	out := &cSum{cats: map[string]*cCat{}, sum: mustD(s.Sum)}
	for _, c := range s.Categories {
		if _, dup := out.cats[c.Code]; dup {
			out.dups = append(out.dups, "category "+c.Code)
		}
		cc := &cCat{retained: c.Retained, amount: mustD(c.Amount), groups: map[string]*cGroup{}}
		if c.Surcharge != nil {
			d := mustD(*c.Surcharge)
			cc.sur = &d
		}
		for _, r := range c.Rates {
			k := groupKey(r)
			if _, dup := cc.groups[k]; dup {
				out.dups = append(out.dups, "group "+c.Code+" "+k)
			}
			g := &cGroup{base: mustD(r.Base), amount: mustD(r.Amount)}
			if r.Surcharge != nil {
				d := mustD(r.Surcharge.Amount)
				g.sur = &d
			}
			cc.groups[k] = g
		}
		out.cats[c.Code] = cc
	}
	return out
}

func addOpt(a, b *dec.D) *dec.D {
	switch {
	case a == nil && b == nil:
		return nil
	case a == nil:
		x := *b
		return &x
	case b == nil:
		x := *a
		return &x
	}
	x := a.Add(*b)
	return &x
}

// oracleMerge is the component-wise sum.
func oracleMerge(a, b *cSum) *cSum {
	out := &cSum{cats: map[string]*cCat{}, sum: a.sum.Add(b.sum)}
	for _, src := range []*cSum{a, b} {
		for code, c := range src.cats {
			o := out.cats[code]
			if o == nil {
				o = &cCat{retained: c.retained, amount: dec.Zero(0), groups: map[string]*cGroup{}}
				out.cats[code] = o
			}
			o.amount = o.amount.Add(c.amount)
			o.sur = addOpt(o.sur, c.sur)
			for k, g := range c.groups {
				og := o.groups[k]
				if og == nil {
					og = &cGroup{base: dec.Zero(0), amount: dec.Zero(0)}
					o.groups[k] = og
				}
				og.base = og.base.Add(g.base)
				og.amount = og.amount.Add(g.amount)
				og.sur = addOpt(og.sur, g.sur)
			}
		}
	}
	return out
}

func oracleNegate(a *cSum) *cSum {
	out := &cSum{cats: map[string]*cCat{}, sum: a.sum.Neg()}
	neg := func(d *dec.D) *dec.D {
		if d == nil {
			return nil
		}
		x := d.Neg()
		return &x
	}
	for code, c := range a.cats {
		o := &cCat{retained: c.retained, amount: c.amount.Neg(), sur: neg(c.sur), groups: map[string]*cGroup{}}
		for k, g := range c.groups {
			o.groups[k] = &cGroup{base: g.base.Neg(), amount: g.amount.Neg(), sur: neg(g.sur)}
		}
		out.cats[code] = o
	}
	return out
}

// diffCSum returns the first differing component ("" if equal). A missing
// optional surcharge equals an absent one only if both are absent.
func diffCSum(got, want *cSum) (component, detail string) {
	if len(got.dups) > 0 {
		return "duplicate-rows", strings.Join(got.dups, "; ")
	}
	eqOpt := func(a, b *dec.D) bool {
		if a == nil || b == nil {
			return a == nil && b == nil
		}
		return a.Cmp(*b) == 0
	}
	if got.sum.Cmp(want.sum) != 0 {
		return "sum", fmt.Sprintf("sum %s want %s", got.sum, want.sum)
	}
	for code, w := range want.cats {
		g := got.cats[code]
		if g == nil {
			return "category-missing", code
		}
		if g.retained != w.retained {
			return "cat-retained", code
		}
		if g.amount.Cmp(w.amount) != 0 {
			return "cat-amount", fmt.Sprintf("%s amount %s want %s", code, g.amount, w.amount)
		}
		if !eqOpt(g.sur, w.sur) {
			return "cat-surcharge", fmt.Sprintf("%s surcharge %v want %v", code, optS(g.sur), optS(w.sur))
		}
		for k, wg := range w.groups {
			gg := g.groups[k]
			if gg == nil {
				return "group-missing", code + " " + k
			}
			if gg.base.Cmp(wg.base) != 0 {
				return "rate-base", fmt.Sprintf("%s %s base %s want %s", code, k, gg.base, wg.base)
			}
			if gg.amount.Cmp(wg.amount) != 0 {
				return "rate-amount", fmt.Sprintf("%s %s amount %s want %s", code, k, gg.amount, wg.amount)
			}
			if !eqOpt(gg.sur, wg.sur) {
				return "rate-surcharge", fmt.Sprintf("%s %s surcharge amount %v want %v", code, k, optS(gg.sur), optS(wg.sur))
			}
		}
		if len(g.groups) != len(w.groups) {
			return "group-extra", code
		}
	}
	if len(got.cats) != len(want.cats) {
		return "category-extra", ""
	}
	return "", ""
}

func optS(d *dec.D) string {
	if d == nil {
		return "absent"
	}
	return d.String()
}

func allZero(s *cSum) (string, bool) {
	if !s.sum.IsZero() {
		return "sum", false
	}
	for code, c := range s.cats {
		if !c.amount.IsZero() {
			return "cat-amount:" + code, false
		}
		if c.sur != nil && !c.sur.IsZero() {
			return "cat-surcharge:" + code, false
		}
		for _, g := range c.groups {
			if !g.base.IsZero() {
				return "rate-base:" + code, false
			}
			if !g.amount.IsZero() {
				return "rate-amount:" + code, false
			}
			if g.sur != nil && !g.sur.IsZero() {
				return "rate-surcharge:" + code, false
			}
		}
	}
	return "", true
}

// ---- real summaries from the real calculator -------------------------------

type taxRow struct {
	total num.Amount
	taxes tax.Set
}

func (r *taxRow) GetTaxes() tax.Set    { return r.taxes }
func (r *taxRow) GetTotal() num.Amount { return r.total }

func pct(s string) *num.Percentage {
	p, err := num.PercentageFromString(s)
	if err != nil {
		panic(err)
	}
	return &p
}

type comboSpec struct {
	name string
	mk   func() *tax.Combo
}

var c20combos = []comboSpec{
	{"vat-standard", func() *tax.Combo { return &tax.Combo{Category: "VAT", Rate: "standard"} }},
	{"vat-reduced", func() *tax.Combo { return &tax.Combo{Category: "VAT", Rate: "reduced"} }},
	{"vat-standard-eqs", func() *tax.Combo { return &tax.Combo{Category: "VAT", Rate: "standard+eqs"} }},
	{"vat-reduced-eqs", func() *tax.Combo { return &tax.Combo{Category: "VAT", Rate: "reduced+eqs"} }},
	{"vat-exempt", func() *tax.Combo { return &tax.Combo{Category: "VAT", Rate: "exempt"} }},
	{"vat-zero", func() *tax.Combo { return &tax.Combo{Category: "VAT", Rate: "zero"} }},
	{"vat-21-explicit", func() *tax.Combo { return &tax.Combo{Category: "VAT", Percent: pct("21.0%")} }},
	{"vat-21-sur-explicit", func() *tax.Combo {
		return &tax.Combo{Category: "VAT", Percent: pct("21.0%"), Surcharge: pct("5.2%")}
	}},
	{"vat-21-sur-other", func() *tax.Combo {
		return &tax.Combo{Category: "VAT", Percent: pct("21.0%"), Surcharge: pct("1.75%")}
	}},
	{"vat-21-ext", func() *tax.Combo {
		return &tax.Combo{Category: "VAT", Percent: pct("21%"), Ext: tax.Extensions{"es-tbai-product": "goods"}}
	}},
	{"vat-21-ext2", func() *tax.Combo {
		return &tax.Combo{Category: "VAT", Percent: pct("21%"), Ext: tax.Extensions{"es-tbai-product": "services"}}
	}},
	{"vat-21-ext-superset", func() *tax.Combo {
		return &tax.Combo{Category: "VAT", Percent: pct("21%"), Ext: tax.Extensions{"es-tbai-product": "goods", "es-verifactu-regime": "01"}}
	}},
	{"vat-21-ext-other-key", func() *tax.Combo {
		return &tax.Combo{Category: "VAT", Percent: pct("21%"), Ext: tax.Extensions{"es-verifactu-regime": "01"}}
	}},
	{"vat-exempt-ext-superset", func() *tax.Combo {
		return &tax.Combo{Category: "VAT", Ext: tax.Extensions{"es-tbai-exemption": "E1", "es-verifactu-regime": "01"}}
	}},
	{"vat-exempt-ext", func() *tax.Combo {
		return &tax.Combo{Category: "VAT", Ext: tax.Extensions{"es-tbai-exemption": "E1"}}
	}},
	{"vat-pt", func() *tax.Combo { return &tax.Combo{Category: "VAT", Country: "PT", Rate: "standard"} }},
	{"vat-fr-20", func() *tax.Combo { return &tax.Combo{Category: "VAT", Country: "FR", Percent: pct("20%")} }},
	{"vat-7.5", func() *tax.Combo { return &tax.Combo{Category: "VAT", Percent: pct("7.5%")} }},
	{"irpf-pro", func() *tax.Combo { return &tax.Combo{Category: "IRPF", Rate: "pro"} }},
	{"irpf-7", func() *tax.Combo { return &tax.Combo{Category: "IRPF", Percent: pct("7%")} }},
	{"igic-standard", func() *tax.Combo { return &tax.Combo{Category: "IGIC", Rate: "standard"} }},
	{"ipsi-3", func() *tax.Combo { return &tax.Combo{Category: "IPSI", Percent: pct("3.5%")} }},
	// different rates written with different numbers of decimals that agree at the
	// coarser precision (21% / 21.4%, 7% / 7.49% with 7.5% above), also as surcharges
	{"vat-21.4", func() *tax.Combo { return &tax.Combo{Category: "VAT", Percent: pct("21.4%")} }},
	{"vat-20.96", func() *tax.Combo { return &tax.Combo{Category: "VAT", Percent: pct("20.96%")} }},
	{"vat-7", func() *tax.Combo { return &tax.Combo{Category: "VAT", Percent: pct("7%")} }},
	{"vat-7.49", func() *tax.Combo { return &tax.Combo{Category: "VAT", Percent: pct("7.49%")} }},
	{"vat-21-sur-5", func() *tax.Combo {
		return &tax.Combo{Category: "VAT", Percent: pct("21.0%"), Surcharge: pct("5%")}
	}},
	{"vat-21-sur-5.24", func() *tax.Combo {
		return &tax.Combo{Category: "VAT", Percent: pct("21.0%"), Surcharge: pct("5.24%")}
	}},
}

func randAmount(rng *rand.Rand, maxExp int) num.Amount {
	e := uint32(rng.IntN(maxExp + 1))
	var v int64
	switch rng.IntN(10) {
	case 0:
		v = 0
	case 1, 2:
		v = rng.Int64N(200)
	default:
		v = rng.Int64N(5_000_000)
	}
	if rng.IntN(5) == 0 {
		v = -v
	}
	return num.MakeAmount(v, e)
}

type c20summary struct {
	t     *tax.Total
	rows  []string
	rule  cbc.Key
	feats map[string]bool
}

func makeSummary(rng *rand.Rand, rule cbc.Key, pool []int) (*c20summary, error) {
	n := 1 + rng.IntN(5)
	s := &c20summary{rule: rule, feats: map[string]bool{}}
	var lines []tax.TaxableLine
	for i := 0; i < n; i++ {
		row := &taxRow{total: randAmount(rng, 4)}
		used := map[cbc.Code]bool{}
		k := 1 + rng.IntN(2)
		var names []string
		for j := 0; j < k; j++ {
			spec := c20combos[pool[rng.IntN(len(pool))]]
			cb := spec.mk()
			if used[cb.Category] {
				continue
			}
			used[cb.Category] = true
			row.taxes = append(row.taxes, cb)
			names = append(names, spec.name)
			if strings.Contains(spec.name, "eqs") || strings.Contains(spec.name, "sur") {
				s.feats["surcharge"] = true
			}
			if strings.HasPrefix(spec.name, "irpf") {
				s.feats["retained"] = true
			}
			if strings.Contains(spec.name, "exempt") {
				s.feats["exempt"] = true
			}
		}
		s.rows = append(s.rows, fmt.Sprintf("%s:%s", toD(row.total), strings.Join(names, "+")))
		lines = append(lines, row)
	}
	s.t = new(tax.Total)
	tc := &tax.TotalCalculator{Country: l10n.TaxCountryCode("ES"), Rounding: rule, Currency: currency.EUR, Date: cal.MakeDate(2024, 3, 15), Lines: lines}
	if err := tc.Calculate(s.t); err != nil {
		return nil, err
	}
	return s, nil
}

func sumView(t *tax.Total) (*sumJSON, string, error) {
	b, err := json.Marshal(t)
	if err != nil {
		return nil, "", err
	}
	v := new(sumJSON)
	if err := json.Unmarshal(b, v); err != nil {
		return nil, string(b), err
	}
	return v, string(b), nil
}

type c20snap struct {
	js string
	fp uint64
}

func snap(t *tax.Total) c20snap {
	_, js, _ := sumView(t)
	fp, _ := walk.Fingerprint(t)
	return c20snap{js, fp}
}

func surClass(a, b *cSum) string {
	has := func(s *cSum) bool {
		for _, c := range s.cats {
			if c.sur != nil {
				return true
			}
		}
		return false
	}
	switch {
	case has(a) && has(b):
		return "sur-both"
	case has(a):
		return "sur-left-only"
	case has(b):
		return "sur-right-only"
	}
	return "sur-none"
}

func shareCategory(a, b *cSum) bool {
	for k := range a.cats {
		if _, ok := b.cats[k]; ok {
			return true
		}
	}
	return false
}

func runC20(c *Ctx) {
	c.R.Rule("summaries produced by the real tax.TotalCalculator from random rows over 28 combo kinds (ES categories VAT/IRPF/IGIC/IPSI, keyed/percent/exempt, surcharges, extension maps that are equal, different, disjoint and strict subsets of one another, country overrides), both rounding rules; relations: merge vs component-wise oracle, commutativity, associativity, A+(-A)=0, -(-A)=A, operand immutability (JSON + deep fingerprint incl. unexported fields), recalculation fixpoint; payments with 1-8 debit/credit lines in 1-3 currencies. non-trivial = operands share a category or carry a surcharge/retained/exempt feature; distinct by operand JSON")
	c.R.Assume("component-wise arithmetic in math/big (internal/dec); groups keyed by (category; country, percent, surcharge percent, extensions; exempt apart); row order ignored")
	c.R.Assume("payments: debit/credit amounts generated at the precision of their own currency are in domain; amounts with more decimals are executed and reported separately (out_of_domain), as are conversions from a currency with fewer decimals than the payment currency if they disagree")

	nPairs := c.N(20000, 1000000)
	chunks := 64
	c.Parallel(chunks, func(ci int) {
		rng := c.Rand(uint64(ci))
		for it := 0; it < nPairs/chunks; it++ {
			rule := tax.RoundingRulePrecise
			if rng.IntN(2) == 0 {
				rule = tax.RoundingRuleCurrency
			}
			// pools: small pools make overlapping categories / matching groups likely
			pool := make([]int, 2+rng.IntN(5))
			for i := range pool {
				pool[i] = rng.IntN(len(c20combos))
			}
			var S [3]*c20summary
			ok := true
			for i := range S {
				p := pool
				if rng.IntN(4) == 0 { // sometimes a disjoint pool
					p = []int{rng.IntN(len(c20combos)), rng.IntN(len(c20combos))}
				}
				s, err := makeSummary(rng, rule, p)
				if err != nil {
					ok = false
					break
				}
				S[i] = s
			}
			if !ok {
				c.R.Count("calculator_errors", 1)
				continue
			}
			c20pair(c, S[0], S[1], S[2])
		}
	})

	// payments
	nPay := c.N(3000, 100000)
	c.Parallel(chunks, func(ci int) {
		rng := c.Rand(uint64(1000 + ci))
		for it := 0; it < nPay/chunks; it++ {
			c20payment(c, rng)
		}
	})
	// the monitor must have seen what it is there for: a run without a single
	// payment carrying a merged tax summary decides nothing about that clause
	if c20paymentsWithTax.Load() == 0 {
		c.R.Inconclusive("no-payment-with-tax-summary-observed")
	}
	c.Require("payments_with_long_exchange_rates")
}

var c20paymentsWithTax atomic.Int64

func c20pair(c *Ctx, sa, sb, sc *c20summary) {
	A, B, C := sa.t, sb.t, sc.t
	va, ja, _ := sumView(A)
	vb, jb, _ := sumView(B)
	vc, _, _ := sumView(C)
	ca, cb, cc := toCSum(va), toCSum(vb), toCSum(vc)
	feat := surClass(ca, cb)
	nontriv := shareCategory(ca, cb) || sa.feats["surcharge"] || sa.feats["retained"] || sa.feats["exempt"] || sb.feats["surcharge"] || sb.feats["retained"] || sb.feats["exempt"]
	c.R.Case(nontriv, ev.Hash(ja, jb))
	c.R.Count("pairs:"+feat, 1)
	if shareCategory(ca, cb) {
		c.R.Count("pairs_sharing_category", 1)
	}
	wit := func() map[string]any {
		return map[string]any{"rule": sa.rule, "A_rows": sa.rows, "B_rows": sb.rows, "C_rows": sc.rows, "A": json.RawMessage(ja), "B": json.RawMessage(jb)}
	}
	if c.R.WantSample() {
		c.R.Sample(map[string]any{"A_rows": sa.rows, "B_rows": sb.rows, "A": json.RawMessage(ja)})
	}
	if len(ca.dups) > 0 {
		c.R.Fail("calculator:duplicate-rows", strings.Join(ca.dups, ";"), wit())
	}
	sA, sB, sC := snap(A), snap(B), snap(C)
	unchanged := func(op string) {
		if x := snap(A); x != sA {
			c.R.Fail("operand-changed:"+op+":left", fmt.Sprintf("%s changed its left operand: before %s after %s (fingerprint %x→%x)", op, sA.js, x.js, sA.fp, x.fp), wit())
			sA = x
		}
		if x := snap(B); x != sB {
			c.R.Fail("operand-changed:"+op+":right", fmt.Sprintf("%s changed its right operand: before %s after %s (fingerprint %x→%x)", op, sB.js, x.js, sB.fp, x.fp), wit())
			sB = x
		}
		if x := snap(C); x != sC {
			c.R.Fail("operand-changed:"+op+":third", fmt.Sprintf("%s changed an earlier operand: before %s after %s", op, sC.js, x.js), wit())
			sC = x
		}
	}
	var AB, BA *tax.Total
	if p, st := Safely(func() { AB = A.Merge(B) }); p != nil {
		c.R.Fail("panic:merge", fmt.Sprintf("%v\n%s", p, st), wit())
		return
	}
	unchanged("merge")
	vab, jab, _ := sumView(AB)
	if comp, det := diffCSum(toCSum(vab), oracleMerge(ca, cb)); comp != "" {
		c.R.Fail("merge:"+comp+":"+feat, fmt.Sprintf("A⊕B differs from the component-wise sum: %s; A=%s B=%s A⊕B=%s", det, ja, jb, jab), wit())
	}
	// precise sum adds up too
	if want := toD(A.PreciseSum()).Add(toD(B.PreciseSum())); toD(AB.PreciseSum()).Cmp(want.Round(int(AB.PreciseSum().Exp()))) != 0 && toD(A.PreciseSum()).E >= toD(B.PreciseSum()).E {
		c.R.Fail("merge:precise-sum:"+feat, fmt.Sprintf("precise sum %s want %s", toD(AB.PreciseSum()), want), wit())
	}
	if p, _ := Safely(func() { BA = B.Merge(A) }); p != nil {
		c.R.Fail("panic:merge", fmt.Sprint(p), wit())
		return
	}
	unchanged("merge-swapped")
	vba, jba, _ := sumView(BA)
	if comp, det := diffCSum(toCSum(vba), toCSum(vab)); comp != "" {
		c.R.Fail("commutativity:"+comp+":"+feat, fmt.Sprintf("A⊕B and B⊕A differ beyond row order: %s; A⊕B=%s B⊕A=%s", det, jab, jba), wit())
	}
	// associativity, and a sequence must not reach back into earlier operands
	var L, R *tax.Total
	if p, _ := Safely(func() { L = AB.Merge(C); R = A.Merge(B.Merge(C)) }); p != nil {
		c.R.Fail("panic:merge", fmt.Sprint(p), wit())
		return
	}
	unchanged("merge-sequence")
	vl, jl, _ := sumView(L)
	vr, jr, _ := sumView(R)
	if comp, det := diffCSum(toCSum(vl), toCSum(vr)); comp != "" {
		c.R.Fail("associativity:"+comp, fmt.Sprintf("(A⊕B)⊕C vs A⊕(B⊕C): %s; %s vs %s", det, jl, jr), wit())
	}
	if comp, det := diffCSum(toCSum(vl), oracleMerge(oracleMerge(ca, cb), cc)); comp != "" {
		c.R.Fail("merge-sequence:"+comp, fmt.Sprintf("(A⊕B)⊕C differs from the component-wise sum: %s; got %s", det, jl), wit())
	}
	// the result of a merge must not share mutable rows with its operands:
	// merging into the result again must leave them alone (checked by unchanged above),
	// and address sets must be disjoint.
	if shared := sharedNodes(AB, A, B); shared != "" {
		c.R.Fail("alias:merge-result", "merge result shares a mutable node with an operand at "+shared, wit())
	}

	// negation
	var NA *tax.Total
	if p, _ := Safely(func() { NA = A.Negate() }); p != nil {
		c.R.Fail("panic:negate", fmt.Sprint(p), wit())
		return
	}
	unchanged("negate")
	vna, jna, _ := sumView(NA)
	if comp, det := diffCSum(toCSum(vna), oracleNegate(ca)); comp != "" {
		c.R.Fail("negate:"+comp, fmt.Sprintf("negate(A) is not A with every amount flipped: %s; A=%s -A=%s", det, ja, jna), wit())
	}
	if toD(NA.PreciseSum()).Cmp(toD(A.PreciseSum()).Neg()) != 0 {
		c.R.Fail("negate:precise-sum", fmt.Sprintf("precise sum %s of negation vs %s", toD(NA.PreciseSum()), toD(A.PreciseSum())), wit())
	}
	var NNA, Z *tax.Total
	if p, _ := Safely(func() { NNA = NA.Negate(); Z = A.Merge(NA) }); p != nil {
		c.R.Fail("panic:negate", fmt.Sprint(p), wit())
		return
	}
	unchanged("negate-merge")
	vnn, jnn, _ := sumView(NNA)
	if comp, det := diffCSum(toCSum(vnn), ca); comp != "" {
		c.R.Fail("double-negate:"+comp, fmt.Sprintf("-(-A) != A: %s; A=%s -(-A)=%s", det, ja, jnn), wit())
	}
	vz, jz, _ := sumView(Z)
	if comp, ok := allZero(toCSum(vz)); !ok {
		c.R.Fail("zero-law:"+strings.SplitN(comp, ":", 2)[0], fmt.Sprintf("A⊕(−A) is not zero at %s: A=%s result=%s", comp, ja, jz), wit())
	}

	// recalculation of a parsed summary is a fixpoint
	y1, err1 := recalcJSON(ja, sa.rule)
	if err1 != nil {
		c.R.Fail("recalc:error", err1.Error(), wit())
		return
	}
	y2, err2 := recalcJSON(y1, sa.rule)
	if err2 != nil || y2 != y1 {
		c.R.Fail("recalc:not-idempotent:"+recalcDiff(y1, y2), fmt.Sprintf("recalculating a parsed summary keeps changing it: first %s then %s (err %v)", y1, y2, err2), wit())
	}
	if sa.rule == tax.RoundingRuleCurrency && y1 != ja {
		c.R.Fail("recalc:changes-calculated:"+recalcDiff(ja, y1), fmt.Sprintf("under the currency rule a calculated summary is not reproduced from its own presented figures: %s then %s", ja, y1), wit())
	}
	c.R.Count("relations_checked", 9)
}

func recalcDiff(a, b string) string {
	var x, y sumJSON
	if json.Unmarshal([]byte(a), &x) != nil || json.Unmarshal([]byte(b), &y) != nil {
		return "unparseable"
	}
	comp, _ := diffCSum(toCSum(&y), toCSum(&x))
	if comp == "" {
		return "format"
	}
	return comp
}

func recalcJSON(js string, rule cbc.Key) (out string, err error) {
	t := new(tax.Total)
	if err := json.Unmarshal([]byte(js), t); err != nil {
		return "", err
	}
	if p, _ := Safely(func() { t.Calculate(currency.EUR, rule) }); p != nil {
		return "", fmt.Errorf("panic: %v", p)
	}
	b, err := json.Marshal(t)
	return string(b), err
}

func sharedNodes(res *tax.Total, ops ...*tax.Total) string {
	ra := walk.Addresses(res)
	for _, op := range ops {
		for addr, where := range walk.Addresses(op) {
			if w, ok := ra[addr]; ok {
				// percentages (*num.Percentage) and extension maps are immutable values by
				// convention of the package; only rows, categories and amount pointers count.
				if strings.Contains(where, "Percent") || strings.Contains(where, "Ext") {
					continue
				}
				return w + " / " + where
			}
		}
	}
	return ""
}

// ---- payments ---------------------------------------------------------------

// (runC20 checks after its loops that payments with tax summaries were really observed)
func c20payment(c *Ctx, rng *rand.Rand) {
	curs := []struct {
		code string
		dec  int
	}{{"EUR", 2}, {"USD", 2}, {"GBP", 2}, {"JPY", 0}, {"KWD", 3}, {"MXN", 2}}
	pc := curs[rng.IntN(3)] // payment currency: a 2-decimal one, or any
	if rng.IntN(4) == 0 {
		pc = curs[rng.IntN(len(curs))]
	}
	nl := 1 + rng.IntN(8)
	rates := map[string]string{}
	longRates := rng.IntN(5) == 0
	nearTie := false
	var lines []any
	inDomain := true
	type lineExp struct {
		debit, credit *dec.D
		cur           string
		curDec        int
		tax           *sumJSON
	}
	var exps []lineExp
	amt := func(decimals int) (string, dec.D) {
		v := rng.Int64N(2_000_000)
		if rng.IntN(12) == 0 {
			v = 0
		}
		d := dec.New(v, decimals)
		return d.String(), d
	}
	for i := 0; i < nl; i++ {
		l := map[string]any{}
		le := lineExp{cur: pc.code, curDec: pc.dec}
		if rng.IntN(3) == 0 {
			oc := curs[rng.IntN(len(curs))]
			if oc.code != pc.code {
				l["currency"] = oc.code
				le.cur, le.curDec = oc.code, oc.dec
				if _, ok := rates[oc.code]; !ok {
					rates[oc.code] = dec.New(1+rng.Int64N(3_000_000), 1+rng.IntN(6)).String()
					if longRates {
						// a reciprocal written out to 9-12 decimals (13-14 significant digits): the
						// raw product of amount and rate passes 2^63 although every value involved,
						// and the result, is of ordinary size
						rates[oc.code] = dec.New(1_000_000_000_000+rng.Int64N(90_000_000_000_000), 9+rng.IntN(4)).String()
					}
				}
			}
		}
		decimals := le.curDec
		if rng.IntN(10) == 0 {
			decimals += 1 + rng.IntN(2)
			inDomain = false
		}
		mode := rng.IntN(4)
		if mode != 1 {
			s, d := amt(decimals)
			l["debit"] = s
			le.debit = &d
		}
		if mode == 1 || mode == 2 {
			s, d := amt(decimals)
			l["credit"] = s
			le.credit = &d
		}
		if rng.IntN(2) == 0 {
			// a document with a tax summary given by bases and percentages
			ts := &sumJSON{Sum: "0.00"}
			ncat := 1 + rng.IntN(2)
			for ci := 0; ci < ncat; ci++ {
				cat := sumCatJSON{Code: []string{"VAT", "IRPF", "IGIC"}[ci+rng.IntN(2)], Amount: "0.00"}
				cat.Retained = cat.Code == "IRPF"
				for ri := 0; ri < 1+rng.IntN(2); ri++ {
					r := sumRateJSON{Base: dec.New(rng.Int64N(1_000_000)-100_000, pc.dec).String(), Amount: "0.00"}
					if rng.IntN(6) != 0 {
						p := []string{"21.0%", "10.0%", "4.0%", "15%", "7.0%", "0.0%"}[rng.IntN(6)]
						r.Percent = &p
						if cat.Code == "VAT" && rng.IntN(3) == 0 {
							r.Surcharge = &struct {
								Percent string `json:"percent"`
								Amount  string `json:"amount"`
							}{Percent: []string{"5.2%", "1.4%", "0.5%"}[rng.IntN(3)], Amount: "0.00"}
						}
					}
					// no two rows of a category may share a group key
					dup := false
					for _, o := range cat.Rates {
						if groupKey(o) == groupKey(r) {
							dup = true
						}
					}
					if !dup {
						cat.Rates = append(cat.Rates, r)
					}
				}
				dupc := false
				for _, o := range ts.Categories {
					if o.Code == cat.Code {
						dupc = true
					}
				}
				if !dupc {
					ts.Categories = append(ts.Categories, cat)
				}
			}
			l["document"] = map[string]any{"code": fmt.Sprintf("INV-%d", i+1), "issue_date": "2025-01-10", "tax": ts}
			le.tax = ts
		} else if rng.IntN(2) == 0 {
			l["document"] = map[string]any{"code": fmt.Sprintf("INV-%d", i+1)}
		}
		lines = append(lines, l)
		exps = append(exps, le)
	}
	doc := map[string]any{
		"$schema":    "https://gobl.org/draft-0/bill/payment",
		"$regime":    "ES",
		"type":       "receipt",
		"code":       "P-1",
		"issue_date": "2025-01-28",
		"currency":   pc.code,
		"supplier":   map[string]any{"name": "S", "tax_id": map[string]any{"country": "ES", "code": "B98602642"}},
		"lines":      lines,
	}
	var xr []any
	for from, r := range rates {
		xr = append(xr, map[string]any{"from": from, "to": pc.code, "amount": r})
	}
	if len(xr) > 0 {
		doc["exchange_rates"] = xr
	}
	in, _ := json.Marshal(doc)
	var out []byte
	var err error
	if p, pst := Safely(func() {
		var env interface{}
		e, e2 := gx.EnvelopDoc(in)
		err = e2
		env = e
		if e2 == nil {
			out, err = json.Marshal(env)
		}
	}); p != nil {
		c.R.Count("payment_panics", 1)
		c.R.Fail("payment:panic:"+panicSite(pst), fmt.Sprintf("calculating a well-formed payment panicked: %v", p), map[string]any{"doc": json.RawMessage(in)})
		c.R.Case(false, 0)
		return
	}
	if err != nil {
		c.R.Count("payment_calc_errors", 1)
		c.R.Count("payment_calc_error:"+trunc(gx.ErrKey(err)+":"+err.Error()), 1)
		c.R.Case(false, 0)
		return
	}
	var got struct {
		Doc struct {
			Total string   `json:"total"`
			Tax   *sumJSON `json:"tax"`
			Lines []struct {
				Total    string `json:"total"`
				Document *struct {
					Tax *sumJSON `json:"tax"`
				} `json:"document"`
			} `json:"lines"`
		} `json:"doc"`
	}
	if json.Unmarshal(out, &got) != nil || len(got.Doc.Lines) != len(exps) {
		c.R.Fail("payment:unreadable", "cannot read calculated payment", map[string]any{"doc": json.RawMessage(in)})
		return
	}
	class := "in-domain"
	if !inDomain {
		class = "extra-decimals"
		c.R.Count("payments_out_of_domain", 1)
	}
	conv := func(d *dec.D, le lineExp) dec.D {
		if d == nil {
			return dec.Zero(pc.dec)
		}
		if le.cur == pc.code {
			return *d
		}
		r := dec.MustParse(rates[le.cur])
		// the statement does not fix the rounding of a conversion; the oracle
		// follows the library's documented procedure: the product is kept at the
		// amount's own precision (raised to at least the payment currency's),
		// then presented at the payment currency's decimals.
		e := d.E
		if e < pc.dec {
			e = pc.dec
		}
		x := d.Mul(r)
		out := dec.RoundRat(x.Rat(), e)
		if longRates {
			// the library multiplies in float64: with 19-20 digit products its result is
			// exact except within ~1e-4 of a half unit; such cases are not judged
			diff := x.Sub(out)
			if diff.Sign() < 0 {
				diff = diff.Neg()
			}
			if diff.Cmp(dec.New(499, e+3)) > 0 && diff.Cmp(dec.New(501, e+3)) < 0 {
				nearTie = true
			}
		}
		return out.Round(pc.dec)
	}
	total := dec.Zero(pc.dec)
	var taxWant *cSum
	lowerPrec := false
	for i, le := range exps {
		lt := conv(le.debit, le).Sub(conv(le.credit, le))
		if le.cur != pc.code && le.curDec < pc.dec {
			lowerPrec = true
		}
		total = total.Add(lt)
		if inDomain && !nearTie {
			if g := mustD(got.Doc.Lines[i].Total); g.Cmp(lt) != 0 {
				cl := class
				if le.cur != pc.code {
					cl = "converted"
					if le.curDec < pc.dec {
						cl = "converted-from-fewer-decimals"
					}
				}
				c.R.Fail("payment:line-total:"+cl, fmt.Sprintf("line %d total %s, debit−credit converted gives %s (line %s, rate %s)", i+1, g, lt, J(lines[i]), rates[le.cur]), map[string]any{"doc": json.RawMessage(in)})
			}
		}
		if le.tax != nil {
			// expected line summary: amounts recomputed from bases and percentages
			w := expectedDocTax(le.tax, pc.dec)
			if got.Doc.Lines[i].Document == nil || got.Doc.Lines[i].Document.Tax == nil {
				c.R.Fail("payment:line-tax-missing", "line document tax missing after calculation", map[string]any{"doc": json.RawMessage(in)})
			} else if comp, det := diffCSum(toCSum(got.Doc.Lines[i].Document.Tax), w); comp != "" {
				c.R.Fail("payment:line-tax:"+comp, fmt.Sprintf("line %d document tax not recomputed from its bases: %s", i+1, det), map[string]any{"doc": json.RawMessage(in)})
			}
			if taxWant == nil {
				taxWant = w
			} else {
				taxWant = oracleMerge(taxWant, w)
			}
		}
	}
	_ = lowerPrec
	if longRates && len(rates) > 0 {
		c.R.Count("payments_with_long_exchange_rates", 1)
		if nearTie {
			c.R.Count("payments_with_long_exchange_rates_near_a_tie(not_judged)", 1)
		}
	}
	if inDomain && nearTie {
		// not judged
	} else if inDomain {
		if g := mustD(got.Doc.Total); g.Cmp(total) != 0 {
			c.R.Fail("payment:total:"+class, fmt.Sprintf("payment total %s, Σ(debit−credit) converted = %s", g, total), map[string]any{"doc": json.RawMessage(in)})
		}
	} else {
		// out of domain: still, the payment total must be the sum of its presented line totals
		s := dec.Zero(pc.dec)
		for _, l := range got.Doc.Lines {
			s = s.Add(mustD(l.Total))
		}
		if g := mustD(got.Doc.Total); g.Cmp(s.Round(g.E)) != 0 && g.Cmp(s) != 0 {
			c.R.Count("out_of_domain_total_differs_from_line_sum", 1)
		}
	}
	if taxWant != nil {
		if got.Doc.Tax == nil {
			c.R.Fail("payment:tax-missing", "payment tax summary missing", map[string]any{"doc": json.RawMessage(in)})
		} else if comp, det := diffCSum(toCSum(got.Doc.Tax), taxWant); comp != "" {
			c.R.Fail("payment:tax:"+comp, fmt.Sprintf("payment tax summary is not the merge of its lines' summaries: %s; got %s", det, J(got.Doc.Tax)), map[string]any{"doc": json.RawMessage(in)})
		}
		c.R.Count("payments_with_tax", 1)
		c20paymentsWithTax.Add(1)
	} else if got.Doc.Tax != nil {
		c.R.Fail("payment:tax-unexpected", "payment has a tax summary but no line document has one", map[string]any{"doc": json.RawMessage(in)})
	}
	// the calculated payment, edited and calculated again: nothing of the earlier
	// summary may survive (the lines' document summaries removed; the taxed lines removed)
	if taxWant != nil {
		if n, err := jmut.Parse(out); err == nil && n.Get("doc") != nil {
			for _, mode := range []string{"document-tax-removed", "taxed-lines-removed"} {
				d := n.Get("doc").Clone()
				ls := d.Get("lines")
				if ls == nil || ls.K != jmut.Arr {
					continue
				}
				var keep []*jmut.Node
				for _, l := range ls.A {
					dn := l.Get("document")
					taxed := dn != nil && dn.K == jmut.Obj && dn.Get("tax") != nil
					if mode == "document-tax-removed" {
						if taxed {
							dn.Del("tax")
						}
						keep = append(keep, l)
					} else if !taxed {
						keep = append(keep, l)
					}
				}
				if len(keep) == 0 {
					continue
				}
				ls.A = keep
				var out2 []byte
				var err2 error
				if p, _ := Safely(func() {
					e, e2 := gx.EnvelopDoc(d.Bytes())
					if err2 = e2; e2 == nil {
						out2, err2 = json.Marshal(e)
					}
				}); p != nil || err2 != nil {
					continue
				}
				c.R.Count("payments_recalculated_after:"+mode, 1)
				if n2, err := jmut.Parse(out2); err == nil && n2.Get("doc") != nil && n2.Get("doc").Get("tax") != nil {
					c.R.Fail("payment:tax-stale:"+mode, fmt.Sprintf("recalculated payment (%s) still presents the tax summary %s although no line document has one", mode, n2.Get("doc").Get("tax").Bytes()), map[string]any{"doc": json.RawMessage(d.Bytes())})
				}
			}
		}
	}
	c.R.Case(len(exps) > 1 || taxWant != nil, ev.HashBytes(in))
	c.R.Count("payments", 1)
	c.R.Count(fmt.Sprintf("payment_currency:%s", pc.code), 1)
	if len(rates) > 0 {
		c.R.Count("payments_multi_currency", 1)
	}
}

// expectedDocTax recomputes a line document's summary from bases and
// percentages at the payment currency's precision (regime ES: precise rule;
// with bases already at currency precision both rules agree).
func expectedDocTax(t *sumJSON, cdec int) *cSum {
	out := &cSum{cats: map[string]*cCat{}, sum: dec.Zero(cdec)}
	for _, c := range t.Categories {
		cc := &cCat{retained: c.Retained, amount: dec.Zero(cdec), groups: map[string]*cGroup{}}
		for _, r := range c.Rates {
			base := mustD(r.Base)
			g := &cGroup{base: base, amount: dec.Zero(cdec)}
			if r.Percent != nil {
				p := mustD(*r.Percent)
				// amount at the base's precision, then presented at the currency's
				g.amount = dec.RoundRat(base.Mul(p).Rat(), base.E).Round(cdec)
				cc.amount = cc.amount.Add(dec.RoundRat(base.Mul(p).Rat(), base.E))
				if r.Surcharge != nil {
					sp := mustD(r.Surcharge.Percent)
					sa := dec.RoundRat(base.Mul(sp).Rat(), base.E)
					x := sa.Round(cdec)
					g.sur = &x
					if cc.sur == nil {
						z := dec.Zero(cdec)
						cc.sur = &z
					}
					y := cc.sur.Add(sa)
					cc.sur = &y
				}
			}
			cc.groups[groupKey(r)] = g
		}
		if c.Retained {
			out.sum = out.sum.Sub(cc.amount)
			if cc.sur != nil {
				out.sum = out.sum.Sub(*cc.sur)
			}
		} else {
			out.sum = out.sum.Add(cc.amount)
			if cc.sur != nil {
				out.sum = out.sum.Add(*cc.sur)
			}
		}
		cc.amount = cc.amount.Round(cdec)
		if cc.sur != nil {
			x := cc.sur.Round(cdec)
			cc.sur = &x
		}
		out.cats[c.Code] = cc
	}
	out.sum = out.sum.Round(cdec)
	return out
}
