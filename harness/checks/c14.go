package checks

import (
	"bufio"
	"bytes"
	"encoding/json"
	"errors"
	"fmt"
	"os"
	"os/exec"
	"path/filepath"
	"regexp"
	"runtime/debug"
	"sort"
	"strings"
	"sync"
	"sync/atomic"
	"time"

	"github.com/invopop/gobl"
	"github.com/invopop/gobl/bill"
	"github.com/invopop/gobl/dsig"
	"github.com/invopop/gobl/head"
	"github.com/invopop/gobl/schema"

	"verif/internal/corpus"
	"verif/internal/ev"
	"verif/internal/gx"
	"verif/internal/jmut"
)

// C14 — no input crashes the library; failures are structured errors.
//
// Every case runs in a child process that logs the case before executing it,
// so that a panic, a Go fatal error, a killed process or a hang is attributed
// to one input. Panics are additionally recovered per operation so that one
// batch reports many.

func init() {
	Register("C14", runC14)
	Children["C14"] = childC14
}

var documentedKeys = map[string]bool{"no-document": true, "validation": true, "calculation": true, "marshal": true, "unmarshal": true, "signature": true, "digest": true, "internal": true, "unknown-schema": true}

var c14key = dsig.NewES256Key()

type c14finding struct {
	Sig   string `json:"sig"`
	Desc  string `json:"desc"`
	Case  string `json:"case"`
	Op    string `json:"op"`
	Input string `json:"input,omitempty"`
}

var frameRe = regexp.MustCompile(`^(github\.com/invopop/gobl[^\s(]*(?:\([^)]*\))?[^\s(]*)\(`)

// panicSite extracts the innermost gobl function on the panicking stack.
func panicSite(stack string) string {
	lines := strings.Split(stack, "\n")
	seenPanic := false
	for _, l := range lines {
		if strings.HasPrefix(l, "panic(") {
			seenPanic = true
			continue
		}
		if !seenPanic {
			continue
		}
		if i := strings.Index(l, "github.com/invopop/gobl"); i == 0 {
			f := l
			if j := strings.LastIndex(f, "("); j > 0 {
				f = f[:j]
			}
			f = strings.TrimPrefix(f, "github.com/invopop/gobl/")
			f = strings.TrimPrefix(f, "github.com/invopop/gobl.")
			return f
		}
	}
	return "unknown-site"
}

type c14runner struct {
	findings []c14finding
	stats    map[string]int64
	caseName string
	input    []byte
}

func (r *c14runner) add(sig, desc, op string) {
	in := string(r.input)
	if len(in) > 20000 {
		in = in[:20000] + "…(truncated)"
	}
	r.findings = append(r.findings, c14finding{Sig: sig, Desc: desc, Case: r.caseName, Op: op, Input: in})
}

// op runs fn under recover and checks the error oracle.
func (r *c14runner) op(name string, fn func() error) (ok bool) {
	var err error
	var stack string
	var pv any
	func() {
		defer func() {
			if p := recover(); p != nil {
				pv = p
				stack = string(debug.Stack())
			}
		}()
		err = fn()
	}()
	r.stats["op:"+name]++
	if pv != nil {
		site := panicSite(stack)
		r.add("panic:"+site, fmt.Sprintf("%s panicked: %v", name, pv), name)
		return false
	}
	if err != nil {
		var ge *gobl.Error
		if !errors.As(err, &ge) {
			r.add("errkey:"+name+":unkeyed", fmt.Sprintf("%s returned an error that is not a keyed gobl error: %T %v", name, err, err), name)
			return false
		}
		k := ge.Key().String()
		r.stats["errkey:"+name+":"+k]++
		if !documentedKeys[k] {
			r.add("errkey:"+name+":"+k, fmt.Sprintf("%s returned undocumented key %q", name, k), name)
		}
		var b []byte
		var merr error
		func() {
			defer func() {
				if p := recover(); p != nil {
					merr = fmt.Errorf("panic %v", p)
				}
			}()
			_ = err.Error() // the message is rendered too (logs, CLI output)
			b, merr = json.Marshal(err)
		}()
		if merr != nil || !json.Valid(b) {
			r.add("errjson:"+name, fmt.Sprintf("error of %s does not serialise to JSON: %v", name, merr), name)
		}
		return false
	}
	return true
}

func parseEnv(data []byte) (*gobl.Envelope, error) {
	obj, err := gobl.Parse(data)
	if err != nil {
		return nil, err
	}
	if env, ok := obj.(*gobl.Envelope); ok {
		if env.Head == nil || env.Document == nil {
			// callers of the envelope API are expected to hold these; without them the envelope API is not reachable
			return env, nil
		}
		return env, nil
	}
	// a bare document: wrap it
	return gobl.Envelop(obj)
}

var c14correctOpts = [][]byte{
	[]byte(`{"type":"credit-note","reason":"r"}`),
	[]byte(`{"type":"corrective","reason":"r","ext":{"es-facturae-correction":"01","es-verifactu-correction":"S"}}`),
	[]byte(`{"type":"debit-note","stamps":[{"prv":"sat-uuid","val":"x"}],"issue_date":"2024-01-01","series":"R","copy_tax":true}`),
	[]byte(`{"type":"zz-undefined"}`),
	[]byte(`null`),
}

// runCase puts one input through the operations, chained and each on its own parse.
func (r *c14runner) runCase(name string, data []byte) {
	r.caseName, r.input = name, data
	var env *gobl.Envelope
	parsed := r.op("parse", func() error {
		var err error
		env, err = parseEnv(data)
		return err
	})
	if !parsed || env == nil {
		return
	}
	r.stats["parsed"]++
	// the invoice-level operations cost two more calculations each: on every
	// well-formed generated document, and on one mutant in sixteen
	extra := strings.HasPrefix(name, "gen-") || hashStrings([]string{name})%16 == 0
	ops := []struct {
		name string
		fn   func(e *gobl.Envelope) error
	}{
		{"calculate", func(e *gobl.Envelope) error { return e.Calculate() }},
		{"validate", func(e *gobl.Envelope) error { return e.Validate() }},
		{"digest", func(e *gobl.Envelope) error { _, err := e.Digest(); return err }},
		{"sign", func(e *gobl.Envelope) error { return e.Sign(c14key) }},
		{"verify-key", func(e *gobl.Envelope) error { return e.Verify(c14key.Public()) }},
		{"verify-nokey", func(e *gobl.Envelope) error { return e.Verify() }},
		{"correct", func(e *gobl.Envelope) error {
			var first error
			for i, o := range c14correctOpts {
				_, err := e.Correct(schemaWithData(o))
				if i == 0 {
					first = err
				}
			}
			return first
		}},
		{"replicate", func(e *gobl.Envelope) error { _, err := e.Replicate(); return err }},
		{"options-schema", func(e *gobl.Envelope) error { _, err := e.CorrectionOptionsSchema(); return err }},
		{"extract", func(e *gobl.Envelope) error { _ = e.Extract(); _ = e.Signed(); return nil }},
		// the invoice's own operations a caller reaches through Extract
		// (they are documented for calculated invoices: only run on what calculates and validates)
		{"invert", func(e *gobl.Envelope) error {
			if !extra || e.Calculate() != nil || e.Validate() != nil {
				return nil
			}
			if inv, ok := e.Extract().(*bill.Invoice); ok && inv != nil && inv.Totals != nil {
				return wrapPlain(inv.Invert())
			}
			return nil
		}},
		{"remove-included-taxes", func(e *gobl.Envelope) error {
			if !extra || e.Calculate() != nil || e.Validate() != nil {
				return nil
			}
			if inv, ok := e.Extract().(*bill.Invoice); ok && inv != nil && inv.Totals != nil {
				return wrapPlain(inv.RemoveIncludedTaxes())
			}
			return nil
		}},
		{"marshal", func(e *gobl.Envelope) error {
			_, err := json.Marshal(e)
			if err != nil {
				return gobl.ErrMarshal.WithCause(err)
			}
			return nil
		}},
	}
	// chained, as a user would
	for _, o := range ops {
		o := o
		if r.op(o.name, func() error { return o.fn(env) }) && o.name == "calculate" {
			r.stats["reached_calculate_ok"]++
		}
	}
	// every operation on its own fresh parse, so an early failure does not hide a later one
	for _, o := range ops[1:] {
		o := o
		var e2 *gobl.Envelope
		func() {
			defer func() { _ = recover() }()
			e2, _ = parseEnv(data)
		}()
		if e2 == nil {
			return
		}
		r.op(o.name, func() error { return o.fn(e2) })
	}
}

// wrapPlain: the document-level methods return plain or validation errors, not
// *gobl.Error values; they are not judged for their key.
func wrapPlain(err error) error {
	if err == nil {
		return nil
	}
	return gobl.ErrCalculation.WithCause(err)
}

func schemaWithData(o []byte) schema.Option {
	if string(o) == "null" {
		return nil2opt()
	}
	return schemaWithDataImpl(o)
}

// ---- mutant enumeration (deterministic, seed independent) -------------------

type c14mut struct {
	name string
	data []byte
}

var c14scalars = []*jmut.Node{
	jmut.Nl(), jmut.S(""), jmut.S("zz-unknown-v9"), jmut.S("ZZ"), jmut.S("-"), jmut.S("1e400"), jmut.S("123456789012345678901234567890"),
	jmut.S("0." + strings.Repeat("0", 70)), jmut.S("1." + strings.Repeat("9", 25) + "%"), jmut.N("0." + strings.Repeat("0", 70) + "1"),
	jmut.N("0"), jmut.N("-1"), jmut.N("1e400"), jmut.Bl(true), jmut.Ar(), jmut.O(), jmut.Ar(jmut.Nl()), jmut.Ar(jmut.O()), jmut.O(jmut.Member{Key: "x", Val: jmut.Nl()}),
	// text that means something to whatever renders an error message around it
	jmut.S("{{"), jmut.S("{{.x}} %s %!d(x) \u0001"),
}

// enumMutants calls fn for every single mutation of positions [from,to) of root.
func enumMutants(root *jmut.Node, from, to int, fn func(name string, n *jmut.Node)) int {
	var paths []jmut.Path
	root.Walk(func(p jmut.Path, x *jmut.Node) {
		if len(p) > 0 {
			paths = append(paths, p)
		}
	})
	if to > len(paths) {
		to = len(paths)
	}
	for i := from; i < to; i++ {
		p := paths[i]
		orig := root.At(p)
		// delete
		d := root.Clone()
		if d.Remove(p) {
			fn(p.String()+":delete", d)
		}
		for ri, rep := range c14scalars {
			if orig.K == rep.K && orig.K != jmut.Str && orig.K != jmut.Num && orig.K != jmut.Arr && orig.K != jmut.Obj {
				continue
			}
			d := root.Clone()
			if d.Replace(p, rep.Clone()) {
				fn(fmt.Sprintf("%s:rep%d", p.String(), ri), d)
			}
		}
		// references: every other defined value of the kind (a defined regime without
		// normaliser, an addon of another country, …), not only garbage
		if orig.K == jmut.Str && len(p) > 0 {
			var alts []string
			switch key := p[len(p)-1].Key; {
			case key == "$schema":
				alts = c14alts().schemas
			case key == "$regime" || key == "country":
				alts = c14alts().regimes
			case key == "currency":
				alts = []string{"JPY", "KWD", "CLP", "USD", "EUR", "XXX"}
			case len(p) >= 2 && p[len(p)-2].Key == "$addons":
				alts = c14alts().addons
			case len(p) >= 2 && p[len(p)-2].Key == "$tags":
				alts = []string{"simplified", "reverse-charge", "customer-rates", "self-billed", "partial", "bypass", "export", "b2g"}
			}
			for _, a := range alts {
				if a == orig.S {
					continue
				}
				d := root.Clone()
				if d.Replace(p, jmut.S(a)) {
					fn(fmt.Sprintf("%s:defined=%s", p.String(), a), d)
				}
			}
		}
		switch orig.K {
		case jmut.Arr:
			if len(orig.A) > 0 {
				d := root.Clone()
				a := d.At(p)
				a.A = append(a.A, jmut.Nl())
				fn(p.String()+":append-null", d)
				d2 := root.Clone()
				a2 := d2.At(p)
				a2.A = append([]*jmut.Node{jmut.Nl()}, a2.A...)
				fn(p.String()+":prepend-null", d2)
				d3 := root.Clone()
				a3 := d3.At(p)
				for _, x := range orig.A {
					a3.A = append(a3.A, x.Clone())
				}
				fn(p.String()+":doubled", d3)
				// heterogeneous rows: a copy of the first row that lacks one of its
				// (nested) members, after and before the original rows
				if first := orig.A[0]; first.K == jmut.Obj {
					var subs []jmut.Path
					first.Walk(func(q jmut.Path, y *jmut.Node) {
						if len(q) >= 1 && len(q) <= 2 {
							subs = append(subs, q)
						}
					})
					for si, q := range subs {
						cp := first.Clone()
						if !cp.Remove(q) {
							continue
						}
						d4 := root.Clone()
						a4 := d4.At(p)
						a4.A = append(a4.A, cp)
						fn(fmt.Sprintf("%s:row-without[%d]%s:after", p.String(), si, q.String()), d4)
						d5 := root.Clone()
						a5 := d5.At(p)
						a5.A = append([]*jmut.Node{cp.Clone()}, a5.A...)
						fn(fmt.Sprintf("%s:row-without[%d]%s:before", p.String(), si, q.String()), d5)
					}
				}
			}
		case jmut.Obj:
			// the document root: the root references it does not carry yet
			if len(p) == 1 && p[0].Key == "doc" {
				for _, add := range []struct {
					key  string
					vals []string
					arr  bool
				}{{"$regime", c14alts().regimes, false}, {"$addons", c14alts().addons, true}, {"$tags", []string{"simplified", "reverse-charge", "customer-rates", "self-billed", "export"}, true}} {
					if orig.Get(add.key) != nil {
						continue
					}
					for _, v := range add.vals {
						d := root.Clone()
						if add.arr {
							d.At(p).Set(add.key, jmut.Ar(jmut.S(v)))
						} else {
							d.At(p).Set(add.key, jmut.S(v))
						}
						fn(fmt.Sprintf("%s:add %s=%s", p.String(), add.key, v), d)
					}
				}
			}
			// duplicate a member (the parser sees the key twice)
			if len(orig.M) > 0 {
				d := root.Clone()
				o := d.At(p)
				o.M = append(o.M, jmut.Member{Key: o.M[0].Key, Val: o.M[0].Val.Clone()})
				fn(p.String()+":dup-member", d)
			}
		}
	}
	return len(paths)
}

var c14jsonTag = regexp.MustCompile("json:\"([A-Za-z0-9_$-]+)")

// c14vocabulary collects every JSON member name declared in the non-test Go
// sources of the repository.
func c14vocabulary() []string {
	seen := map[string]bool{}
	_ = filepath.Walk(ev.Repo(), func(p string, info os.FileInfo, err error) error {
		if err != nil {
			return nil
		}
		if info.IsDir() {
			if n := info.Name(); n == ".git" || n == "data" || n == "examples" || n == "node_modules" {
				return filepath.SkipDir
			}
			return nil
		}
		if !strings.HasSuffix(p, ".go") || strings.HasSuffix(p, "_test.go") {
			return nil
		}
		b, err := os.ReadFile(p)
		if err != nil {
			return nil
		}
		for _, m := range c14jsonTag.FindAllSubmatch(b, -1) {
			seen[string(m[1])] = true
		}
		return nil
	})
	var out []string
	for k := range seen {
		out = append(out, k)
	}
	sort.Strings(out)
	return out
}

type c14altSet struct{ regimes, addons, schemas []string }

var c14altsOnce sync.Once
var c14altsVal c14altSet

// c14alts lists the published regime and addon codes.
func c14alts() c14altSet {
	c14altsOnce.Do(func() {
		w := getWorld()
		for r := range w.defs.Regimes {
			c14altsVal.regimes = append(c14altsVal.regimes, r)
		}
		for a := range w.defs.Addons {
			c14altsVal.addons = append(c14altsVal.addons, a)
		}
		sort.Strings(c14altsVal.regimes)
		sort.Strings(c14altsVal.addons)
		// every published schema id (the files under data/schemas)
		root := filepath.Join(ev.Repo(), "data", "schemas")
		_ = filepath.Walk(root, func(p string, info os.FileInfo, err error) error {
			if err == nil && !info.IsDir() && strings.HasSuffix(p, ".json") {
				rel, _ := filepath.Rel(root, p)
				c14altsVal.schemas = append(c14altsVal.schemas, "https://gobl.org/draft-0/"+strings.TrimSuffix(filepath.ToSlash(rel), ".json"))
			}
			return nil
		})
		sort.Strings(c14altsVal.schemas)
	})
	return c14altsVal
}

func countPositions(root *jmut.Node) int {
	n := 0
	root.Walk(func(p jmut.Path, x *jmut.Node) {
		if len(p) > 0 {
			n++
		}
	})
	return n
}

// ---- child -------------------------------------------------------------------

type c14job struct {
	Kind string   `json:"kind"` // "mut" | "raw" | "pair"
	File string   `json:"file,omitempty"`
	From int      `json:"from,omitempty"`
	To   int      `json:"to,omitempty"`
	Seed int64    `json:"seed,omitempty"`
	N    int      `json:"n,omitempty"`
	Only string   `json:"only,omitempty"` // run just this case name (re-run of a suspect)
	Keys []string `json:"keys,omitempty"` // "addkey": member names to add at position From
}

func childC14(args []string) int {
	if len(args) != 3 {
		return 2
	}
	var job c14job
	if b, err := os.ReadFile(args[0]); err != nil || json.Unmarshal(b, &job) != nil {
		return 2
	}
	res, err := os.Create(args[1])
	if err != nil {
		return 2
	}
	defer res.Close()
	prog, err := os.Create(args[2])
	if err != nil {
		return 2
	}
	defer prog.Close()
	debug.SetMaxStack(256 << 20)
	r := &c14runner{stats: map[string]int64{}}
	var cur atomic.Value
	var started atomic.Int64
	cur.Store("")
	// watchdog: a single case must not take longer than 30 s
	go func() {
		for {
			time.Sleep(time.Second)
			if s := started.Load(); s != 0 && time.Since(time.Unix(0, s)) > 30*time.Second {
				fmt.Fprintf(prog, "HANG %s\n", cur.Load())
				prog.Sync()
				os.Exit(3)
			}
		}
	}()
	run := func(name string, data []byte) {
		if job.Only != "" && job.Only != name {
			return
		}
		fmt.Fprintf(prog, "case %s\n", name)
		cur.Store(name)
		started.Store(time.Now().UnixNano())
		r.runCase(name, data)
		started.Store(0)
		r.stats["cases"]++
	}
	switch job.Kind {
	case "mut":
		b, err := os.ReadFile(job.File)
		if err != nil {
			return 2
		}
		root, err := jmut.Parse(b)
		if err != nil {
			return 2
		}
		enumMutants(root, job.From, job.To, func(name string, n *jmut.Node) { run(name, n.Bytes()) })
	case "raw":
		rawCases(job.Seed, job.N, func(name string, data []byte) { run(name, data) })
	case "pair":
		pairCases(job.File, job.Seed, job.N, func(name string, data []byte) { run(name, data) })
	case "gen":
		genCases(job.Seed, job.N, func(name string, data []byte) { run(name, data) })
	case "addkey":
		b, err := os.ReadFile(job.File)
		if err != nil {
			return 2
		}
		root, err := jmut.Parse(b)
		if err != nil {
			return 2
		}
		var paths []jmut.Path
		root.Walk(func(p jmut.Path, x *jmut.Node) { paths = append(paths, p) })
		if job.From >= len(paths) {
			return 2
		}
		p := paths[job.From]
		if root.At(p) == nil || root.At(p).K != jmut.Obj {
			return 2
		}
		vals := []*jmut.Node{jmut.Ar(), jmut.O(), jmut.S(""), jmut.Ar(jmut.Nl()), jmut.N("0"), jmut.S("{{")}
		for _, k := range job.Keys {
			if root.At(p).Get(k) != nil {
				continue
			}
			for vi, v := range vals {
				d := root.Clone()
				d.At(p).Set(k, v.Clone())
				run(fmt.Sprintf("%s:add-member %s=v%d", p.String(), k, vi), d.Bytes())
			}
		}
	}
	fmt.Fprintf(prog, "done\n")
	out := map[string]any{"findings": dedupe(r.findings), "stats": r.stats}
	json.NewEncoder(res).Encode(out)
	return 0
}

func dedupe(fs []c14finding) []c14finding {
	seen := map[string]int{}
	var out []c14finding
	for _, f := range fs {
		if seen[f.Sig] < 2 { // two witnesses per signature and batch are plenty
			out = append(out, f)
		}
		seen[f.Sig]++
	}
	return out
}

// rawCases: byte-level inputs for the parser.
func rawCases(seed int64, n int, fn func(name string, data []byte)) {
	fixed := map[string][]byte{
		"empty":            {},
		"space":            []byte("  \n"),
		"null":             []byte("null"),
		"number":           []byte("12"),
		"string":           []byte(`"abc"`),
		"array":            []byte(`[]`),
		"empty-object":     []byte(`{}`),
		"schema-only":      []byte(`{"$schema":"https://gobl.org/draft-0/envelope"}`),
		"schema-number":    []byte(`{"$schema":12}`),
		"schema-unknown":   []byte(`{"$schema":"https://gobl.org/draft-0/zz/unknown"}`),
		"env-null-doc":     []byte(`{"$schema":"https://gobl.org/draft-0/envelope","head":null,"doc":null,"sigs":null}`),
		"env-empty-doc":    []byte(`{"$schema":"https://gobl.org/draft-0/envelope","head":{},"doc":{}}`),
		"env-doc-noschema": []byte(`{"$schema":"https://gobl.org/draft-0/envelope","head":{"uuid":"0190a1b2-c3d4-7e5f-8a9b-0c1d2e3f4a5b","dig":{"alg":"sha256","val":"00"}},"doc":{"a":1}}`),
		"invoice-empty":    []byte(`{"$schema":"https://gobl.org/draft-0/bill/invoice"}`),
		"invoice-nulls":    []byte(`{"$schema":"https://gobl.org/draft-0/bill/invoice","lines":[null],"supplier":null,"customer":null,"totals":null,"payment":null,"tax":null}`),
		"payment-empty":    []byte(`{"$schema":"https://gobl.org/draft-0/bill/payment","lines":[{}]}`),
		"order-empty":      []byte(`{"$schema":"https://gobl.org/draft-0/bill/order","lines":[{"item":{}}]}`),
		"delivery-empty":   []byte(`{"$schema":"https://gobl.org/draft-0/bill/delivery","lines":[{"quantity":"1"}]}`),
		"party-empty":      []byte(`{"$schema":"https://gobl.org/draft-0/org/party"}`),
		"message-empty":    []byte(`{"$schema":"https://gobl.org/draft-0/note/message"}`),
		"identity-empty":   []byte(`{"$schema":"https://gobl.org/draft-0/tax/identity"}`),
		"regime-def":       []byte(`{"$schema":"https://gobl.org/draft-0/tax/regime-def"}`),
		"invalid-utf8":     []byte("{\"$schema\":\"https://gobl.org/draft-0/org/party\",\"name\":\"\xff\xfe\"}"),
		"deep-arrays":      append(bytes.Repeat([]byte("["), 10000), bytes.Repeat([]byte("]"), 10000)...),
		"deep-objects":     []byte(strings.Repeat(`{"a":`, 10000) + "1" + strings.Repeat("}", 10000)),
		"deep-in-doc":      []byte(`{"$schema":"https://gobl.org/draft-0/envelope","head":{},"doc":{"$schema":"https://gobl.org/draft-0/bill/invoice","meta":` + strings.Repeat(`{"a":`, 5000) + `"x"` + strings.Repeat("}", 5000) + `}}`),
		"huge-string":      []byte(`{"$schema":"https://gobl.org/draft-0/org/party","name":"` + strings.Repeat("A", 10<<20) + `"}`),
		"huge-number":      []byte(`{"$schema":"https://gobl.org/draft-0/bill/invoice","lines":[{"quantity":"` + strings.Repeat("9", 5000) + `","item":{"name":"x","price":"1"}}]}`),
	}
	var names []string
	for k := range fixed {
		names = append(names, k)
	}
	sort.Strings(names)
	for _, k := range names {
		fn("raw:"+k, fixed[k])
	}
	// prefixes of corpus files and random bytes
	items := corpus.Golden()
	rng := newRng(seed, 77)
	for i := 0; i < n; i++ {
		it := items[rng.IntN(len(items))]
		switch rng.IntN(3) {
		case 0:
			cut := rng.IntN(len(it.Data))
			fn(fmt.Sprintf("raw:prefix:%s:%d", it.Rel, cut), it.Data[:cut])
		case 1:
			b := make([]byte, rng.IntN(200))
			for j := range b {
				b[j] = byte(rng.IntN(256))
			}
			fn(fmt.Sprintf("raw:random:%d", i), b)
		default:
			// flip a few bytes
			b := append([]byte{}, it.Data...)
			for k := 0; k < 1+rng.IntN(4); k++ {
				b[rng.IntN(len(b))] = byte(rng.IntN(256))
			}
			fn(fmt.Sprintf("raw:flip:%s:%d", it.Rel, i), b)
		}
	}
}

// pairCases: two simultaneous mutations of one corpus file.
func pairCases(file string, seed int64, n int, fn func(name string, data []byte)) {
	b, err := os.ReadFile(file)
	if err != nil {
		return
	}
	root, err := jmut.Parse(b)
	if err != nil {
		return
	}
	var paths []jmut.Path
	root.Walk(func(p jmut.Path, x *jmut.Node) {
		if len(p) > 0 {
			paths = append(paths, p)
		}
	})
	rng := newRng(seed, ev.Hash(file))
	for i := 0; i < n; i++ {
		d := root.Clone()
		desc := ""
		for k := 0; k < 2; k++ {
			p := paths[rng.IntN(len(paths))]
			if d.At(p) == nil {
				continue
			}
			if rng.IntN(6) == 0 {
				d.Remove(p)
				desc += p.String() + ":delete;"
			} else {
				ri := rng.IntN(len(c14scalars))
				d.Replace(p, c14scalars[ri].Clone())
				desc += fmt.Sprintf("%s:rep%d;", p.String(), ri)
			}
		}
		fn("pair:"+desc, d.Bytes())
	}
}

// ---- parent ------------------------------------------------------------------

type c14result struct {
	Findings []c14finding     `json:"findings"`
	Stats    map[string]int64 `json:"stats"`
}

func runC14(c *Ctx) {
	c.R.Rule("complete, seed-independent single-mutation sweep: every JSON position of every corpus envelope × 17 replacements (delete, null, empty/unknown/garbage strings, huge and empty numbers, retyped to number/bool/array/object, [null], [{}]) plus array null-append/prepend/doubling and duplicated members; seeded classes: raw bytes (empty, prefixes, random, flipped bytes, 10^4-deep nesting, 10 MB strings, invalid UTF-8), pairwise mutations, well-formed generated invoices/orders/deliveries (all grammar profiles) and payments with document tax summaries, CLI option values and bulk protocol lines, cold-start bursts, a sample through the CLI commands and the HTTP/bulk server. Each mutant goes through parse → calculate → validate → digest → sign → verify(key/no key) → correct (5 option sets) → replicate → options schema → extract → marshal, chained and again with every operation on its own fresh parse. non-trivial = the mutant parsed far enough to reach Calculate; distinct by mutant")
	c.R.Assume("a panic is attributed to the innermost gobl function on the panicking stack; process death and hangs are attributed through a per-case progress log written before each case")
	items := corpus.Golden()
	self, _ := os.Executable()
	tmp, err := os.MkdirTemp("", "verif-c14-")
	if err != nil {
		c.R.Inconclusive("tmp")
		return
	}
	defer os.RemoveAll(tmp)

	if os.Getenv("VERIF_C14_ONLY") == "cli" { // development aid: entry points only
		c.R.Cases(2, 2)
		c14entryPoints(c, items, tmp)
		return
	}
	var jobs []c14job
	batch := 60 // positions per child
	for _, it := range items {
		root, err := jmut.Parse(it.Data)
		if err != nil {
			continue
		}
		n := countPositions(root)
		for from := 0; from < n; from += batch {
			jobs = append(jobs, c14job{Kind: "mut", File: it.Path, From: from, To: from + batch})
		}
	}
	// signed envelopes as bases too (one per document type, stamped, two signatures):
	// every position of their header and signature list gets the same replacements,
	// so the operations see signed envelopes whose header lost or changed a member
	{
		seenType := map[string]bool{}
		k1, k2 := dsig.NewES256Key(), dsig.NewES256Key()
		nSigned := 0
		for _, it := range items {
			if seenType[it.Type] || nSigned >= 6 {
				continue
			}
			env, err := gx.ParseEnvelope(it.Data)
			if err != nil {
				continue
			}
			var serr error
			if p, _ := Safely(func() {
				if serr = env.Sign(k1); serr == nil {
					env.Head.AddStamp(&head.Stamp{Provider: "verif-stamp", Value: "S-1"})
					serr = env.Sign(k2)
				}
			}); p != nil || serr != nil {
				continue
			}
			b, merr := json.Marshal(env)
			root, perr := jmut.Parse(b)
			if merr != nil || perr != nil || root.Get("head") == nil || root.Get("sigs") == nil {
				continue
			}
			seenType[it.Type] = true
			nSigned++
			file := filepath.Join(tmp, fmt.Sprintf("signed-%d.json", nSigned))
			if os.WriteFile(file, b, 0o644) != nil {
				continue
			}
			// positions are numbered in walk order: $schema, head…, doc…, sigs…
			total := countPositions(root)
			headEnd := 2 + countPositions(root.Get("head"))
			sigsStart := total - countPositions(root.Get("sigs")) - 1
			jobs = append(jobs, c14job{Kind: "mut", File: file, From: 0, To: headEnd}, c14job{Kind: "mut", File: file, From: sigsStart, To: total})
			c.R.Count("signed_bases", 1)
		}
	}
	c.R.Set("single_mutation_batches", len(jobs))
	rawN := c.N(4000, 400000)
	for i := 0; i < 16; i++ {
		jobs = append(jobs, c14job{Kind: "raw", Seed: c.Seed*1000 + int64(i), N: rawN / 16})
	}
	// members a document does not carry, from the vocabulary of every member name
	// the library's Go sources declare (json tags, incl. those only read by
	// UnmarshalJSON helpers for older document versions): each name is added, with
	// five empty-ish values, to the first object found of every position class
	{
		vocab := c14vocabulary()
		c.R.Set("member_name_vocabulary", len(vocab))
		seenClass := map[string]bool{}
		for _, it := range items {
			root, err := jmut.Parse(it.Data)
			if err != nil {
				continue
			}
			idx := -1
			root.Walk(func(p jmut.Path, x *jmut.Node) {
				idx++
				if x.K != jmut.Obj || len(p) == 0 || !strings.HasPrefix(p.Class(), "doc") {
					return
				}
				cl := it.Type + ":" + p.Class()
				if seenClass[cl] {
					return
				}
				seenClass[cl] = true
				for k := 0; k < len(vocab); k += 150 {
					end := k + 150
					if end > len(vocab) {
						end = len(vocab)
					}
					jobs = append(jobs, c14job{Kind: "addkey", File: it.Path, From: idx, Keys: vocab[k:end]})
				}
			})
		}
		c.R.Set("object_position_classes", len(seenClass))
	}
	genN := c.N(3200, 160000)
	for i := 0; i < 16; i++ {
		jobs = append(jobs, c14job{Kind: "gen", Seed: c.Seed*1000 + 500 + int64(i), N: genN / 16})
	}
	pairN := c.N(16000, 1600000)
	for i, it := range items {
		jobs = append(jobs, c14job{Kind: "pair", File: it.Path, Seed: c.Seed*1000 + int64(i), N: pairN / len(items)})
	}

	var mu sync.Mutex
	total := map[string]int64{}
	var jobN atomic.Int64
	runJob := func(job c14job, id int) (res *c14result, status string, lastCase string) {
		jf := filepath.Join(tmp, fmt.Sprintf("job-%d.json", id))
		rf := filepath.Join(tmp, fmt.Sprintf("res-%d.json", id))
		pf := filepath.Join(tmp, fmt.Sprintf("prog-%d.txt", id))
		b, _ := json.Marshal(job)
		_ = os.WriteFile(jf, b, 0o644)
		cmd := exec.Command(self, "child", "C14", jf, rf, pf)
		var eb bytes.Buffer
		cmd.Stderr = &eb
		cmd.Stdout = &eb
		err := runWithTimeout(cmd, 15*time.Minute)
		defer func() { os.Remove(jf); os.Remove(rf); os.Remove(pf) }()
		pb, _ := os.ReadFile(pf)
		plines := strings.Split(strings.TrimSpace(string(pb)), "\n")
		last := ""
		hang := false
		for _, l := range plines {
			if strings.HasPrefix(l, "case ") {
				last = strings.TrimPrefix(l, "case ")
			}
			if strings.HasPrefix(l, "HANG ") {
				hang = true
				last = strings.TrimPrefix(l, "HANG ")
			}
		}
		if err == nil {
			rb, _ := os.ReadFile(rf)
			var r c14result
			if json.Unmarshal(rb, &r) == nil {
				return &r, "ok", last
			}
			return nil, "bad-result", last
		}
		if hang {
			return nil, "hang", last
		}
		st := "died:" + firstFatal(eb.String())
		return nil, st, last
	}

	c.Parallel(len(jobs), func(i int) {
		job := jobs[i]
		for attempt := 0; attempt < 50; attempt++ {
			id := int(jobN.Add(1))
			res, status, last := runJob(job, id)
			if status == "ok" {
				mu.Lock()
				for k, v := range res.Stats {
					total[k] += v
				}
				mu.Unlock()
				for _, f := range res.Findings {
					c.R.Fail(f.Sig, fmt.Sprintf("%s [case %s of %s]", f.Desc, f.Case, filepath.Base(job.File)), map[string]any{"job": job, "case": f.Case, "op": f.Op, "input": f.Input})
				}
				return
			}
			// the child died or hung on case `last`
			if status == "hang" {
				// re-run that case alone twice; only a reproducible hang is reported
				hangs := 1
				for k := 0; k < 2; k++ {
					j2 := job
					j2.Only = last
					if _, st2, _ := runJob(j2, int(jobN.Add(1))); st2 == "hang" {
						hangs++
					}
				}
				if hangs == 3 {
					c.R.Fail("hang:"+job.Kind, fmt.Sprintf("case %s of %s exceeds 30 s three times", last, filepath.Base(job.File)), map[string]any{"job": job, "case": last})
				} else {
					c.R.Count("inconclusive_slow_cases", 1)
				}
			} else if strings.HasPrefix(status, "died") {
				c.R.Fail("fatal:"+strings.TrimPrefix(status, "died:"), fmt.Sprintf("process died (%s) on case %s of %s", status, last, filepath.Base(job.File)), map[string]any{"job": job, "case": last})
			} else {
				c.R.Count("child_failures:"+status, 1)
				return
			}
			// continue after the offending case: mutation batches restart from the next position
			if job.Kind == "mut" {
				// find the position index of the offending case and skip it
				pos := positionIndex(job.File, last)
				if pos < 0 || pos+1 >= job.To {
					return
				}
				job.From = pos + 1
				continue
			}
			return
		}
	})
	var keys []string
	for k := range total {
		keys = append(keys, k)
	}
	sort.Strings(keys)
	for _, k := range keys {
		c.R.Count(k, total[k])
	}
	c.R.Cases(total["cases"], total["reached_calculate_ok"])
	c.R.Sample(map[string]any{"case": "lines[0]:rep13 (a line replaced by [null]) of examples/es/out/invoice-es-es.json", "operations": "parse, calculate, validate, digest, sign, verify, correct×5, replicate, options-schema, extract, marshal — chained and each on a fresh parse"})

	c14entryPoints(c, items, tmp)
	c.Require("cases", "reached_calculate_ok", "cli_flag_cases", "bulk_protocol_cases", "cold_start_bursts", "op:correct")
}

func firstFatal(s string) string {
	for _, l := range strings.Split(s, "\n") {
		if strings.HasPrefix(l, "fatal error:") || strings.HasPrefix(l, "panic:") || strings.Contains(l, "stack overflow") {
			l = strings.TrimSpace(l)
			if len(l) > 80 {
				l = l[:80]
			}
			return strings.ReplaceAll(l, " ", "_")
		}
	}
	return "unknown"
}

func positionIndex(file, caseName string) int {
	b, err := os.ReadFile(file)
	if err != nil {
		return -1
	}
	root, err := jmut.Parse(b)
	if err != nil {
		return -1
	}
	i := strings.LastIndex(caseName, ":")
	if i < 0 {
		return -1
	}
	want := caseName[:i]
	idx, found := 0, -1
	root.Walk(func(p jmut.Path, x *jmut.Node) {
		if len(p) == 0 {
			return
		}
		if found < 0 && p.String() == want {
			found = idx
		}
		idx++
	})
	return found
}

var _ = bufio.NewReader

// c14entryPoints sends a sample of mutants through the CLI commands and the server.
func c14entryPoints(c *Ctx, items []corpus.Item, tmp string) {
	// implemented in c14cli.go
	c14cli(c, items, tmp)
}
