package checks

import (
	"encoding/json"
	"fmt"
	"sort"
	"strings"

	"verif/internal/corpus"
	"verif/internal/dec"
	"verif/internal/ev"
	"verif/internal/gen"
	"verif/internal/gx"
	"verif/internal/refcalc"
)

// C02 — tax summary partitions taxable amounts and sums them correctly.

func init() { Register("C02", runC02) }

// partitionCheck: independent of any arithmetic, the presented rate rows of
// each category must be in bijection with the distinct group keys of the
// taxable rows of the calculated document.
func partitionCheck(real *outDoc) (what, detail string) {
	want := map[string]map[string]int{}
	var order []string
	add := func(cbs []refcalc.Combo) {
		for _, cb := range cbs {
			if want[cb.Cat] == nil {
				want[cb.Cat] = map[string]int{}
				order = append(order, cb.Cat)
			}
			want[cb.Cat][refcalc.GroupKey(cb)]++
		}
	}
	for _, l := range real.Lines {
		if l.Total != nil {
			add(l.Taxes)
		}
	}
	for _, d := range real.Discounts {
		add(d.Taxes)
	}
	for _, ch := range real.Charges {
		add(ch.Taxes)
	}
	if real.Totals == nil || real.Totals.Taxes == nil {
		if len(want) > 0 {
			return "summary-missing", fmt.Sprintf("%d categories expected", len(want))
		}
		return "", ""
	}
	seenCat := map[string]bool{}
	for _, c := range real.Totals.Taxes.Categories {
		if seenCat[c.Code] {
			return "duplicate-category", c.Code
		}
		seenCat[c.Code] = true
		w := want[c.Code]
		if w == nil {
			return "unexpected-category", c.Code
		}
		got := map[string]bool{}
		for _, rt := range c.Rates {
			cb := refcalc.Combo{Cat: c.Code, Country: rt.Country, Percent: rt.Percent, Ext: rt.Ext}
			if rt.Surcharge != nil {
				cb.Surcharge = &rt.Surcharge.Percent
			}
			k := refcalc.GroupKey(cb)
			if got[k] {
				return "duplicate-group", c.Code + " " + k
			}
			got[k] = true
			if w[k] == 0 {
				return "unexpected-group", c.Code + " " + k
			}
		}
		for k := range w {
			if !got[k] {
				cls := "missing-group"
				switch {
				case strings.HasPrefix(k, "exempt"):
					cls = "exempt-absorbed"
				case strings.Contains(k, "="):
					cls = "merge-ext"
				}
				return cls, c.Code + " " + k
			}
		}
	}
	for _, cat := range order {
		if !seenCat[cat] {
			return "missing-category", cat
		}
	}
	return "", ""
}

func runC02(c *Ctx) {
	c.R.Rule("tax-focused synthesised documents (1-3 combos per row from the regime's real categories incl. retained ones, rate keys, explicit percentages, exempt combos, surcharges, extension-qualified and country-override combos, zero and negative totals, with/without a tax-included category, both rules, every shipped regime and none) + corpus documents; non-trivial = ≥2 rate rows or a retained/surcharge/exempt/included feature; distinct by input")
	c.R.Assume("oracles: (a) bijection between presented rate rows and the group keys (category; country, percentage, surcharge, extensions; exempt apart) of the calculated rows — no arithmetic involved; (b) harness/internal/refcalc for bases, amounts, category sums, retained subtraction, included-tax removal; (c) when the included category is the only tax present, total_with_tax equals the gross sum")
	w := getWorld()
	taxClass := func(cl string) bool {
		return strings.HasPrefix(cl, "taxes.") || cl == "totals.tax" || cl == "totals.tax_included" || cl == "totals.total_with_tax" || cl == "totals.total"
	}
	var corp []corpus.Item
	for _, it := range corpus.Golden() {
		if it.Type == "bill/invoice" || it.Type == "bill/order" || it.Type == "bill/delivery" {
			corp = append(corp, it)
		}
	}
	judge := func(r *billRun, origin string, feats map[string]bool, in []byte) bool {
		switch {
		case r.Panic != nil:
			c.R.Count("panics", 1)
			c.R.Fail("panic:"+r.PanicAt, fmt.Sprintf("%s: calculation panicked: %v", origin, r.Panic), map[string]any{"origin": origin, "input": json.RawMessage(in)})
			return false
		case r.CalcErr != nil:
			c.R.Count("calculation_refused", 1)
			return false
		}
		if what, det := partitionCheck(r.Real); what != "" {
			c.R.Fail("group:"+what, fmt.Sprintf("%s: tax summary does not partition the taxable rows: %s (%s)", origin, what, det), map[string]any{"origin": origin, "input": json.RawMessage(in), "taxes": r.Real.Totals})
			return true
		}
		if r.RefErr != nil {
			c.R.Count("reference_unsupported", 1)
			return false
		}
		if r.Ref.OutOfDomain {
			c.R.Count("out_of_2^52_domain", 1)
			return false
		}
		for _, d := range compareFigures(r) {
			if !taxClass(d.Class) {
				continue
			}
			cls := d.Class
			c.R.Fail("group:"+cls+":"+r.Rule, fmt.Sprintf("%s: %s is %s, expected %s (rule %s)", origin, d.Path, d.Real, d.Ref, r.Rule), map[string]any{"origin": origin, "path": d.Path, "real": d.Real, "reference": d.Ref, "input": json.RawMessage(in)})
			break
		}
		// sign of retained categories, from presented figures alone (tolerance: one unit per category)
		if r.Real.Totals != nil && r.Real.Totals.Taxes != nil {
			sum := dec.Zero(r.Ref.C)
			n := int64(0)
			for _, ct := range r.Real.Totals.Taxes.Categories {
				a := mustD(ct.Amount)
				if ct.Surcharge != nil {
					a = a.Add(mustD(*ct.Surcharge))
				}
				if ct.Retained {
					sum = sum.Sub(a)
				} else {
					sum = sum.Add(a)
				}
				n += 2
			}
			diff := sum.Sub(mustD(r.Real.Totals.Taxes.Sum))
			if diff.Sign() < 0 {
				diff = diff.Neg()
			}
			if diff.Cmp(dec.New(n, r.Ref.C)) > 0 {
				c.R.Fail("group:retained-sign", fmt.Sprintf("%s: taxes.sum %s is not ordinary minus retained categories (%s)", origin, r.Real.Totals.Taxes.Sum, sum), map[string]any{"input": json.RawMessage(in)})
			}
		}
		// included tax: if it is the only tax, total with tax is the gross sum
		if r.RefIn.Tax != nil && r.RefIn.Tax.PricesInclude != "" && r.Real.Totals != nil && r.Real.Totals.Taxes != nil {
			only := len(r.Real.Totals.Taxes.Categories) == 1 && r.Real.Totals.Taxes.Categories[0].Code == r.RefIn.Tax.PricesInclude &&
				r.Real.Totals.Taxes.Categories[0].Surcharge == nil // a surcharge is a further tax on top of the included one
			if only {
				c.R.Count("included_only_documents", 1)
				gross := dec.RoundRat(r.Ref.Pre.Gross.Rat(), r.Ref.C)
				if got := mustD(r.Real.Totals.TotalWithTax); got.Cmp(gross) != 0 {
					c.R.Fail("group:included-removal:"+r.Rule, fmt.Sprintf("%s: prices include %s and no other tax applies, but total_with_tax %s differs from the gross sum %s", origin, r.RefIn.Tax.PricesInclude, got, gross), map[string]any{"input": json.RawMessage(in)})
				}
			}
		}
		return true
	}
	c.Parallel(len(corp), func(i int) {
		doc, err := gx.DocJSON(corp[i].Data)
		if err != nil {
			return
		}
		r := runBill(doc, 0)
		if judge(r, corp[i].Rel, nil, doc) {
			c.R.Count("corpus_documents_compared", 1)
		}
	})
	n := c.N(8000, 300000)
	chunks := 64
	counts := make([]map[string]int64, chunks)
	c.Parallel(chunks, func(ci int) {
		rng := c.Rand(uint64(ci))
		g := gen.New(rng, w.defs)
		fc := map[string]int64{}
		counts[ci] = fc
		for k := 0; k < n/chunks; k++ {
			d := g.Document(gen.Profile{Schema: "bill/invoice", MaxLines: 10, TaxFocus: true})
			r := runBill(d.JSON, 0)
			ok := judge(r, "generated", d.Features, d.JSON)
			rows := 0
			if ok && r.Real.Totals != nil && r.Real.Totals.Taxes != nil {
				for _, ct := range r.Real.Totals.Taxes.Categories {
					rows += len(ct.Rates)
				}
				fc["rate_rows"] += int64(rows)
				fc["categories"] += int64(len(r.Real.Totals.Taxes.Categories))
			}
			nt := ok && (rows >= 2 || d.Features["retained"] || d.Features["surcharge"] || d.Features["exempt"] || d.Features["prices-include"])
			c.R.Case(nt, ev.HashBytes(d.JSON))
			if ok {
				fc["documents"]++
				for _, f := range []string{"retained", "surcharge", "exempt", "prices-include", "ext-qualified", "country-override", "zero-rate", "rule-currency", "rule-precise"} {
					if d.Features[f] {
						fc["feature:"+f]++
					}
				}
			}
			if k == 0 && ci < 3 && ok {
				c.R.Sample(map[string]any{"input": json.RawMessage(d.JSON), "taxes": r.Real.Totals.Taxes})
			}
		}
	})
	tot := map[string]int64{}
	for _, fc := range counts {
		for k, v := range fc {
			tot[k] += v
		}
	}
	var keys []string
	for k := range tot {
		keys = append(keys, k)
	}
	sort.Strings(keys)
	for _, k := range keys {
		c.R.Count(k, tot[k])
	}
	c.Require("documents", "rate_rows", "feature:surcharge", "feature:retained", "feature:ext-qualified", "included_only_documents")
}
