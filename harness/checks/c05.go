package checks

import (
	"fmt"
	"math/big"
	"math/rand/v2"

	"github.com/invopop/gobl/num"

	"verif/internal/dec"
	"verif/internal/ev"
)

// C05 — decimal arithmetic is exact with round-half-away-from-zero.
//
// Oracle: internal/dec (math/big integers and rationals). Each operation of
// num.Amount / num.Percentage / num.ThresholdRule is executed on concrete
// operands and its (value, exp) result compared with the mathematically
// rounded result. Cases whose operands or exact intermediate leave the 2^52
// domain are executed for crash-freedom only and counted out_of_domain.

func init() { Register("C05", runC05) }

var lim52 = new(big.Int).Lsh(big.NewInt(1), 52)

func in52(x *big.Int) bool { return new(big.Int).Abs(x).Cmp(lim52) < 0 }

func toD(a num.Amount) dec.D { return dec.New(a.Value(), int(a.Exp())) }
func pToD(p num.Percentage) dec.D {
	return dec.New(p.Value(), int(p.Exp()))
}

type c05case struct {
	Op   string `json:"op"`
	A    string `json:"a"`
	B    string `json:"b,omitempty"`
	Arg  int    `json:"arg,omitempty"`
	Got  string `json:"got"`
	Want string `json:"want"`
}

type c05state struct {
	c     *Ctx
	local map[string]int64
}

func (s *c05state) cnt(k string) { s.local[k]++ }

func (s *c05state) flush() {
	for k, v := range s.local {
		s.c.R.Count(k, v)
	}
	s.local = map[string]int64{}
}

func (s *c05state) cmp(op, class string, a, b string, arg int, got num.Amount, want dec.D) {
	g := toD(got)
	if !g.Same(want) {
		s.c.R.Fail("op:"+op+":"+class, fmt.Sprintf("%s(%s,%s,%d) = %s (exp %d), exact result %s (exp %d)", op, a, b, arg, g, g.E, want, want.E),
			c05case{op, a, b, arg, g.String(), want.String()})
	}
}

func classify(r *big.Rat, e int, mixed bool) string {
	if dec.IsTie(r, e) {
		if r.Sign() < 0 {
			return "neg-tie"
		}
		return "tie"
	}
	if mixed {
		return "mixed-exp"
	}
	return "plain"
}

// binary checks all two-operand operations for a pair. Returns whether the
// pair was non-trivial (needed rounding somewhere or mixed exponents).
func (s *c05state) binary(a, b num.Amount) bool {
	da, db := toD(a), toD(b)
	as, bs := da.String(), db.String()
	nontriv := a.Exp() != b.Exp()
	mixed := nontriv
	inA, inB := in52(da.U), in52(db.U)

	// Add / Subtract: b is brought to a's precision (rounded when lowering).
	{
		// intermediate: b raised to a.exp must fit too
		bb := db.Round(da.E)
		ok := inA && inB && in52(bb.U) && in52(new(big.Int).Add(da.U, bb.U)) && in52(new(big.Int).Sub(da.U, bb.U))
		if ok {
			cl := classify(db.Rat(), da.E, mixed)
			if db.E > da.E && !dec.IsExact(db.Rat(), da.E) {
				nontriv = true
				s.cnt("rounded:add")
			}
			if cl == "tie" || cl == "neg-tie" {
				s.cnt("ties:add")
			}
			s.cmp("Add", cl, as, bs, 0, a.Add(b), dec.D{U: new(big.Int).Add(da.U, bb.U), E: da.E})
			s.cmp("Subtract", cl, as, bs, 0, a.Subtract(b), dec.D{U: new(big.Int).Sub(da.U, bb.U), E: da.E})
			if db.E <= da.E {
				// information preserving clause: exact sum
				ex := da.Add(db)
				s.cmp("Add-exact", "mixed-exp", as, bs, 0, a.Add(b), ex.Round(da.E))
			}
		} else {
			s.cnt("out_of_domain")
			_ = a.Add(b)
			_ = a.Subtract(b)
		}
	}
	// Multiply: round(a*b, a.exp); intermediate = product of the units.
	{
		prod := new(big.Int).Mul(da.U, db.U)
		if inA && inB && in52(prod) {
			ex := da.Mul(db).Rat()
			cl := classify(ex, da.E, mixed)
			if !dec.IsExact(ex, da.E) {
				nontriv = true
				s.cnt("rounded:mul")
			}
			if cl == "tie" || cl == "neg-tie" {
				s.cnt("ties:mul")
			}
			s.cmp("Multiply", cl, as, bs, 0, a.Multiply(b), dec.RoundRat(ex, da.E))
		} else {
			s.cnt("out_of_domain")
			_ = a.Multiply(b)
		}
	}
	// Divide: round(a/b, a.exp); intermediate numerator = a.units * 10^b.exp.
	if db.U.Sign() != 0 {
		numr := new(big.Int).Mul(da.U, dec.Pow10(db.E))
		if inA && inB && in52(numr) {
			ex := new(big.Rat).Quo(da.Rat(), db.Rat())
			cl := classify(ex, da.E, mixed)
			if !dec.IsExact(ex, da.E) {
				nontriv = true
				s.cnt("rounded:div")
			}
			if cl == "tie" || cl == "neg-tie" {
				s.cnt("ties:div")
			}
			s.cmp("Divide", cl, as, bs, 0, a.Divide(b), dec.RoundRat(ex, da.E))
		} else {
			s.cnt("out_of_domain")
			_ = a.Divide(b)
		}
	}
	// Compare / Equals: sign of the exact difference. Both are raised to the
	// larger exponent; that raised value is the intermediate.
	{
		e := da.E
		if db.E > e {
			e = db.E
		}
		if inA && inB && in52(da.Up(e).U) && in52(db.Up(e).U) {
			want := da.Cmp(db)
			if got := a.Compare(b); got != want {
				s.c.R.Fail("op:Compare:"+map[bool]string{true: "mixed-exp", false: "plain"}[mixed],
					fmt.Sprintf("Compare(%s,%s)=%d want %d", as, bs, got, want), c05case{"Compare", as, bs, 0, fmt.Sprint(got), fmt.Sprint(want)})
			}
			if got := a.Equals(b); got != (want == 0) {
				s.c.R.Fail("op:Equals:"+map[bool]string{true: "mixed-exp", false: "plain"}[mixed],
					fmt.Sprintf("Equals(%s,%s)=%v want %v", as, bs, got, want == 0), c05case{"Equals", as, bs, 0, fmt.Sprint(got), fmt.Sprint(want == 0)})
			}
			// threshold rules: value a against threshold b
			s.threshold(a, b, want)
			// MatchPrecision
			s.cmp("MatchPrecision", "mixed-exp", as, bs, 0, a.MatchPrecision(b), da.Up(db.E))
		} else {
			s.cnt("out_of_domain")
			_ = a.Compare(b)
		}
	}
	// Percentage operations: b interpreted as the percentage's base amount.
	{
		p := num.MakePercentage(b.Value(), b.Exp())
		prod := new(big.Int).Mul(da.U, db.U)
		if inA && inB && in52(prod) {
			ex := da.Mul(db).Rat()
			s.cmp("Percentage.Of", classify(ex, da.E, mixed), as, bs, 0, p.Of(a), dec.RoundRat(ex, da.E))
		}
		// factor = 1 + p at p's exponent
		f := db.Add(dec.New(1, 0))
		if f.U.Sign() != 0 {
			numr := new(big.Int).Mul(da.U, dec.Pow10(f.E))
			if inA && inB && in52(f.U) && in52(numr) {
				fa := p.Factor()
				s.cmp("Percentage.Factor", "plain", bs, "", 0, fa, f)
				ex := new(big.Rat).Quo(da.Rat(), f.Rat())
				rem := dec.RoundRat(ex, da.E)
				cl := classify(ex, da.E, mixed)
				s.cmp("Amount.Remove", cl, as, bs, 0, a.Remove(p), rem)
				s.cmp("Percentage.From", cl, as, bs, 0, p.From(a), dec.D{U: new(big.Int).Sub(da.U, rem.U), E: da.E})
			}
		}
	}
	return nontriv
}

func (s *c05state) threshold(a, b num.Amount, cmp int) {
	type tr struct {
		name string
		rule num.ThresholdRule
		want bool
	}
	rules := []tr{
		{"Min", num.Min(b), cmp >= 0},
		{"Max", num.Max(b), cmp <= 0},
		{"Min.Exclusive", num.Min(b).Exclusive(), cmp > 0},
		{"Max.Exclusive", num.Max(b).Exclusive(), cmp < 0},
	}
	if b.IsZero() {
		rules = append(rules,
			tr{"Positive", num.Positive, cmp > 0},
			tr{"Negative", num.Negative, cmp < 0},
			tr{"NotZero", num.NotZero, cmp != 0})
	}
	for _, r := range rules {
		got := r.rule.Validate(a) == nil
		if got != r.want {
			s.c.R.Fail("op:Threshold."+r.name+":plain", fmt.Sprintf("%s(%s) on %s accepted=%v want %v", r.name, toD(b), toD(a), got, r.want),
				c05case{"Threshold." + r.name, toD(a).String(), toD(b).String(), 0, fmt.Sprint(got), fmt.Sprint(r.want)})
		}
		s.cnt("threshold_verdicts")
	}
}

// unary checks rescaling, split, negate for one amount.
func (s *c05state) unary(a num.Amount, maxTarget int, maxSplit int) bool {
	da := toD(a)
	as := da.String()
	nontriv := false
	if !in52(da.U) {
		s.cnt("out_of_domain")
		return false
	}
	for t := 0; t <= maxTarget; t++ {
		want := da.Round(t)
		if !in52(want.U) {
			s.cnt("out_of_domain")
			continue
		}
		cl := classify(da.Rat(), t, false)
		if t < da.E && !dec.IsExact(da.Rat(), t) {
			nontriv = true
			s.cnt("rounded:rescale")
		}
		if cl != "plain" {
			s.cnt("ties:rescale")
		}
		s.cmp("Rescale", cl, as, "", t, a.Rescale(uint32(t)), want)
		if t > da.E {
			s.cmp("RescaleUp", cl, as, "", t, a.RescaleUp(uint32(t)), want)
			s.cmp("RescaleDown", cl, as, "", t, a.RescaleDown(uint32(t)), da)
			// raising never loses information
			back := a.Rescale(uint32(t)).Rescale(a.Exp())
			s.cmp("Rescale-up-down", "plain", as, "", t, back, da)
			s.cmp("Upscale", "plain", as, "", t-da.E, a.Upscale(uint32(t-da.E)), want)
		} else {
			s.cmp("RescaleUp", cl, as, "", t, a.RescaleUp(uint32(t)), da)
			s.cmp("RescaleDown", cl, as, "", t, a.RescaleDown(uint32(t)), want)
			s.cmp("Downscale", cl, as, "", da.E-t, a.Downscale(uint32(da.E-t)), want)
		}
		for t2 := t; t2 <= maxTarget && t2 <= t+2; t2++ {
			w := da
			if w.E < t {
				w = w.Round(t)
			}
			if w.E > t2 {
				w = w.Round(t2)
			}
			s.cmp("RescaleRange", cl, as, "", t*100+t2, a.RescaleRange(uint32(t), uint32(t2)), w)
		}
		// percentage rescale
		p := num.MakePercentage(a.Value(), a.Exp())
		pr := p.Rescale(uint32(t))
		if g := pToD(pr); !g.Same(want) {
			s.c.R.Fail("op:Percentage.Rescale:"+cl, fmt.Sprintf("Percentage(%s).Rescale(%d)=%s want %s", as, t, g, want), c05case{"Percentage.Rescale", as, "", t, g.String(), want.String()})
		}
	}
	// Downscale past zero clamps to exponent 0
	s.cmp("Downscale-clamp", classify(da.Rat(), 0, false), as, "", da.E+3, a.Downscale(uint32(da.E+3)), da.Round(0))
	// negate / abs
	s.cmp("Negate", "plain", as, "", 0, a.Negate(), da.Neg())
	s.cmp("Invert", "plain", as, "", 0, a.Invert(), da.Neg())
	ab := da
	if ab.Sign() < 0 {
		ab = ab.Neg()
	}
	s.cmp("Abs", "plain", as, "", 0, a.Abs(), ab)
	if a.IsZero() != (da.Sign() == 0) || a.IsNegative() != (da.Sign() < 0) || a.IsPositive() != (da.Sign() > 0) {
		s.c.R.Fail("op:Sign:plain", "IsZero/IsNegative/IsPositive disagree for "+as, c05case{Op: "Sign", A: as})
	}
	// PercentageFromAmount: exact a/100 at exp+2; Percentage.Amount(): back ×100
	if in52(new(big.Int).Mul(da.U, big.NewInt(100))) {
		p := num.PercentageFromAmount(a)
		want := dec.D{U: da.U, E: da.E + 2}
		if g := pToD(p); !g.Same(want) {
			s.c.R.Fail("op:PercentageFromAmount:plain", fmt.Sprintf("PercentageFromAmount(%s)=%s want %s", as, g, want), c05case{"PercentageFromAmount", as, "", 0, g.String(), want.String()})
		}
		s.cmp("Percentage.Amount", "plain", as, "", 0, p.Amount(), da)
		// a percentage with fewer than two decimals renders at exponent 0
		p2 := num.MakePercentage(a.Value(), a.Exp())
		e := da.E - 2
		if e < 0 {
			e = 0
		}
		w := dec.RoundRat(new(big.Rat).Mul(da.Rat(), big.NewRat(100, 1)), da.E).Round(e)
		s.cmp("Percentage.Amount2", classify(new(big.Rat).Mul(da.Rat(), big.NewRat(100, 1)), e, false), as, "", 0, p2.Amount(), w)
	}
	// Split
	for x := 1; x <= maxSplit; x++ {
		ex := new(big.Rat).Quo(da.Rat(), big.NewRat(int64(x), 1))
		q := dec.RoundRat(ex, da.E)
		if !in52(new(big.Int).Mul(q.U, big.NewInt(int64(x)))) {
			s.cnt("out_of_domain")
			continue
		}
		rest := dec.D{U: new(big.Int).Sub(da.U, new(big.Int).Mul(q.U, big.NewInt(int64(x-1)))), E: da.E}
		g1, g2 := a.Split(x)
		cl := classify(ex, da.E, false)
		if !dec.IsExact(ex, da.E) {
			nontriv = true
			s.cnt("rounded:split")
		}
		s.cmp("Split.part", cl, as, "", x, g1, q)
		s.cmp("Split.rest", cl, as, "", x, g2, rest)
		// parts add back (checked on the real values, independent of the oracle's quotient)
		sum := new(big.Int).Mul(big.NewInt(g1.Value()), big.NewInt(int64(x-1)))
		sum.Add(sum, big.NewInt(g2.Value()))
		if sum.Cmp(da.U) != 0 || g1.Exp() != a.Exp() || g2.Exp() != a.Exp() {
			s.c.R.Fail("op:Split.addback:"+cl, fmt.Sprintf("Split(%s,%d) parts %s×%d + %s do not add back", as, x, toD(g1), x-1, toD(g2)), c05case{"Split.addback", as, "", x, toD(g1).String() + "," + toD(g2).String(), as})
		}
	}
	return nontriv
}

func runC05(c *Ctx) {
	c.R.Rule("operand pairs (value,exp): exhaustive small grid, constructed half-unit ties, uniform random inside the 2^52 domain; non-trivial = the exact result needed rounding or the operands have different exponents; distinct by (a,b) content")
	c.R.Assume("oracle: math/big integer and rational arithmetic (internal/dec), rounding half away from zero")
	c.R.Assume("domain: |operand units| < 2^52 and |exact integer intermediate| < 2^52 (product for Multiply/Of, numerator×10^exp for Divide/Remove/From, raised operand for Add/Compare)")

	V := c.N(60, 300)
	maxExp := 3
	// (1) exhaustive grid
	vals := 2*V + 1
	c.Parallel(vals*(maxExp+1), func(i int) {
		s := &c05state{c: c, local: map[string]int64{}}
		av := int64(i%vals - V)
		ae := uint32(i / vals)
		a := num.MakeAmount(av, ae)
		var n, d int64
		if s.unary(a, 5, 12) {
			d++
		}
		n++
		for be := uint32(0); be <= uint32(maxExp); be++ {
			for bv := int64(-V); bv <= int64(V); bv++ {
				b := num.MakeAmount(bv, be)
				n++
				if s.binary(a, b) {
					d++
				}
			}
		}
		c.R.Cases(n, d)
		s.flush()
	})
	c.R.Set("exhaustive_grid", fmt.Sprintf("all values in [-%d,%d] × exponents 0-%d for both operands, target precisions 0-5, split counts 1-12", V, V, maxExp))

	// (2) constructed ties and (3) random inside the domain
	nT := c.N(150_000, 6_000_000)
	chunks := 64
	c.Parallel(chunks, func(i int) {
		s := &c05state{c: c, local: map[string]int64{}}
		rng := c.Rand(uint64(1000 + i))
		for k := 0; k < nT/chunks; k++ {
			var a, b num.Amount
			switch k % 4 {
			case 0:
				a, b = tieMul(rng)
			case 1:
				a, b = tieDiv(rng)
			case 2:
				a, b = tieRescale(rng)
			default:
				a, b = randPair(rng)
			}
			nt := s.binary(a, b)
			if s.unary(a, 9, 7) {
				nt = true
			}
			if k%4 == 2 && s.unary(b, 9, 7) {
				nt = true
			}
			c.R.Case(nt, ev.Hash(toD(a).String(), toD(b).String()))
			if k < 2 && c.R.WantSample() {
				c.R.Sample(map[string]any{"a": toD(a).String(), "b": toD(b).String(), "a*b": toD(a.Multiply(b)).String()})
			}
		}
		s.flush()
	})
	// (4) precisions far apart: small values whose operands or target precisions lie
	// 10 to 18 decimals from each other (every power of ten up to 10^18 is used)
	wide := 25
	c.Parallel((2*wide+1)*4, func(i int) {
		s := &c05state{c: c, local: map[string]int64{}}
		av := int64(i%(2*wide+1) - wide)
		ae := uint32(i / (2*wide + 1))
		a := num.MakeAmount(av, ae)
		var n, d int64
		if s.unary(a, 18, 3) {
			d++
		}
		n++
		for be := uint32(8); be <= 18; be++ {
			for _, bv := range []int64{0, 1, -1, 2, 5, -5, 15, 49, 50, -50, 51, 99, 100, 12345, -99999, 1000000, 4999999, 5000000, -5000001, 123456789012} {
				b := num.MakeAmount(bv, be)
				n += 3
				if s.binary(a, b) {
					d++
				}
				if s.binary(b, a) {
					d++
				}
				if s.unary(b, 4, 2) {
					d++
				}
			}
		}
		c.R.Cases(n, d)
		s.cnt("wide_gap_operand_sets")
		s.flush()
	})
	c.Require("ties:mul", "ties:div", "rounded:split", "threshold_verdicts", "wide_gap_operand_sets")
}

func randMag(rng *rand.Rand, maxBits int) int64 {
	bits := 1 + rng.IntN(maxBits)
	v := rng.Int64N(int64(1) << bits)
	if rng.IntN(2) == 0 {
		v = -v
	}
	return v
}

func randPair(rng *rand.Rand) (num.Amount, num.Amount) {
	ab := 1 + rng.IntN(50)
	return num.MakeAmount(randMag(rng, ab), uint32(rng.IntN(10))), num.MakeAmount(randMag(rng, 51-ab+1), uint32(rng.IntN(10)))
}

// tieMul builds a,b with a.units*b.units = (2k+1)*5*10^(b.exp-1), so that the
// exact product lands on a half unit of a's precision (or one unit of the
// product beside it).
func tieMul(rng *rand.Rand) (num.Amount, num.Amount) {
	be := 1 + rng.IntN(6)
	ae := rng.IntN(7)
	// choose b units as a multiple of 5^x, a units supplies the rest
	bu := int64(5) * (1 + rng.Int64N(4000))
	half := dec.Pow10(be - 1) // 10^(be-1)
	// want au*bu = odd*5*10^(be-1)  -> try au = odd * 10^(be-1) / gcd stuff; simpler: search nearby
	au := (1 + 2*rng.Int64N(2000)) * half.Int64()
	if bu%5 == 0 {
		bu /= 5
		bu = bu*2 + 1 // odd multiplier keeps product odd multiple of 5*10^(be-1) after ×5
		bu *= 5
	}
	switch rng.IntN(4) {
	case 0:
		au++
	case 1:
		au--
	}
	if rng.IntN(2) == 0 {
		au = -au
	}
	if rng.IntN(2) == 0 {
		bu = -bu
	}
	return num.MakeAmount(au, uint32(ae)), num.MakeAmount(bu, uint32(be))
}

// tieDiv builds a/b whose exact quotient is k+1/2 units of a's precision.
func tieDiv(rng *rand.Rand) (num.Amount, num.Amount) {
	be := rng.IntN(4)
	ae := rng.IntN(6)
	// a.units*10^be / b.units = k + 1/2  => b.units = 2m, a.units*10^be = m(2k+1)
	m := 1 + rng.Int64N(500)
	k := rng.Int64N(100000)
	p := dec.Pow10(be).Int64()
	n := m * (2*k + 1)
	// need n divisible by 10^be: scale m
	n *= p
	bu := 2 * m * p
	au := n / p
	switch rng.IntN(4) {
	case 0:
		au++
	case 1:
		au--
	}
	if rng.IntN(2) == 0 {
		au = -au
	}
	if rng.IntN(2) == 0 {
		bu = -bu
	}
	return num.MakeAmount(au, uint32(ae)), num.MakeAmount(bu, uint32(be))
}

// tieRescale builds an amount whose low digits are exactly 5,50,500… (±1).
func tieRescale(rng *rand.Rand) (num.Amount, num.Amount) {
	ae := 1 + rng.IntN(9)
	drop := 1 + rng.IntN(ae)
	p := dec.Pow10(drop).Int64()
	hi := rng.Int64N((int64(1) << 51) / p)
	au := hi*p + p/2
	switch rng.IntN(4) {
	case 0:
		au++
	case 1:
		au--
	}
	if rng.IntN(2) == 0 {
		au = -au
	}
	b := num.MakeAmount(au, uint32(ae))
	// second operand of lower precision so that Add/Subtract round a tie
	return num.MakeAmount(randMag(rng, 30), uint32(ae-drop)), b
}
