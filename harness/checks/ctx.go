// Package checks holds one runtime monitor per property.
package checks

import (
	"encoding/json"
	"fmt"
	"math/rand/v2"
	"runtime"
	"runtime/debug"
	"sync"
	"sync/atomic"

	"verif/internal/ev"
)

// Ctx is handed to every check.
type Ctx struct {
	R        *ev.Reporter
	ID       string
	Tier     string
	Seed     int64
	Thorough bool
	Workers  int
	// Replay, when non-empty, is the path of a replay file to re-run.
	Replay string
}

// Check is the entry point of one property monitor.
type Check func(c *Ctx)

// Registry maps property ids to checks.
var Registry = map[string]Check{}

// Register adds a check.
func Register(id string, fn Check) { Registry[id] = fn }

// Rand gives a deterministic PRNG for (seed, check, stream).
func (c *Ctx) Rand(stream uint64) *rand.Rand {
	return rand.New(rand.NewPCG(uint64(c.Seed)*0x9E3779B97F4A7C15+ev.Hash(c.ID), stream*0xD1B54A32D192ED03+1))
}

// N picks the quick or thorough size.
func (c *Ctx) N(quick, thorough int) int {
	if c.Thorough {
		return thorough
	}
	return quick
}

// Parallel runs fn(i) for i in [0,n) on c.Workers goroutines. Panics inside fn
// are recovered and reported to onPanic (may be nil: then they are counted
// under "harness_panics" and make the run inconclusive).
func (c *Ctx) Parallel(n int, fn func(i int)) {
	w := c.Workers
	if w < 1 {
		w = runtime.NumCPU()
	}
	if w > n {
		w = n
	}
	if w < 1 {
		return
	}
	var next int64 = -1
	var wg sync.WaitGroup
	for k := 0; k < w; k++ {
		wg.Add(1)
		go func() {
			defer wg.Done()
			for {
				i := int(atomic.AddInt64(&next, 1))
				if i >= n {
					return
				}
				c.guard(i, fn)
			}
		}()
	}
	wg.Wait()
}

func (c *Ctx) guard(i int, fn func(i int)) {
	defer func() {
		if r := recover(); r != nil {
			c.R.Count("panics_in_case", 1)
			if c.R.Counter("panics_in_case") <= 3 {
				c.R.Set(fmt.Sprintf("panic_%d", i), fmt.Sprintf("%v\n%s", r, debug.Stack()))
			}
		}
	}()
	fn(i)
}

// Safely runs fn, returning the recovered panic value (nil if none) and stack.
func Safely(fn func()) (p any, stack string) {
	defer func() {
		if r := recover(); r != nil {
			p = r
			stack = string(debug.Stack())
		}
	}()
	fn()
	return nil, ""
}

// J marshals compactly for witnesses.
func J(v any) string {
	b, err := json.Marshal(v)
	if err != nil {
		return fmt.Sprintf("<%v>", err)
	}
	return string(b)
}

// Require makes the run inconclusive when one of the named counters stayed at
// zero: the monitor then has not seen what it is there to judge, whatever the
// reason (a generator whose documents are all refused, a missing binary, …).
func (c *Ctx) Require(keys ...string) {
	for _, k := range keys {
		if c.R.Counter(k) == 0 {
			c.R.Inconclusive("nothing-observed:" + k)
		}
	}
}
