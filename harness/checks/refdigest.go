package checks

import (
	"crypto/sha256"
	"encoding/hex"

	"verif/internal/c14nref"
	"verif/internal/jmut"
)

// refDigest is the SHA-256 of the canonical form of a document as the harness's
// own canonicaliser (internal/c14nref, written from c14n/README.md) produces it:
// what the header digest of an envelope holding exactly this document text has
// to be, independently of the library's canonicaliser.
func refDigest(doc *jmut.Node) (string, error) {
	c, err := c14nref.Canon(toRefValue(doc), false)
	if err != nil {
		return "", err
	}
	h := sha256.Sum256([]byte(c))
	return hex.EncodeToString(h[:]), nil
}

func toRefValue(n *jmut.Node) *c14nref.Value {
	if n == nil {
		return &c14nref.Value{K: c14nref.Null}
	}
	switch n.K {
	case jmut.Bool:
		return &c14nref.Value{K: c14nref.Bool, B: n.B}
	case jmut.Num:
		return &c14nref.Value{K: c14nref.Num, Lit: n.Num}
	case jmut.Str:
		return &c14nref.Value{K: c14nref.Str, S: n.S}
	case jmut.Arr:
		v := &c14nref.Value{K: c14nref.Arr}
		for _, x := range n.A {
			v.A = append(v.A, toRefValue(x))
		}
		return v
	case jmut.Obj:
		v := &c14nref.Value{K: c14nref.Obj}
		for _, m := range n.M {
			v.M = append(v.M, c14nref.Member{Key: m.Key, Val: toRefValue(m.Val)})
		}
		return v
	}
	return &c14nref.Value{K: c14nref.Null}
}

// refDigestOfEnvelope: reference digest of the "doc" member of a serialised envelope.
func refDigestOfEnvelope(envJSON []byte) (string, bool) {
	n, err := jmut.Parse(envJSON)
	if err != nil || n.Get("doc") == nil {
		return "", false
	}
	d, err := refDigest(n.Get("doc"))
	return d, err == nil
}
