package checks

import (
	"encoding/json"
	"fmt"
	"os"
	"path/filepath"
	"strings"

	"github.com/invopop/gobl"
	"github.com/invopop/gobl/bill"
	"github.com/invopop/gobl/cbc"
	"github.com/invopop/gobl/dsig"
	"github.com/invopop/gobl/head"
	"github.com/invopop/gobl/schema"

	"verif/internal/ev"
	"verif/internal/gx"
	"verif/internal/jmut"
)

// C10 — envelope lifecycle outcomes follow its abstract state over any history.
//
// A small reference state machine (digest matches, document valid for
// signing, signatures, signed headers still contained) is run in lock-step
// with the real gobl.Envelope; every step's outcome and a set of invariants
// are compared.

func init() { Register("C10", runC10) }

type c10op int

const (
	opInsertValid c10op = iota
	opInsertNoCode
	opInsertInvalid
	opCalculate
	opEditDoc
	opSignK1
	opSignK2
	opUnsign
	opAddStamp
	opAlterStamp
	opAddLink
	opValidate
	opVerifyK1
	opRoundtrip
	opParseEmptySig
	opParseNullSig
	opParseTruncSig
	opReinsertEdited
	opParseNullRows
	opDigestUpper
	nC10Ops
)

var c10names = [...]string{"insert(valid+code)", "insert(valid,no-code)", "insert(invalid)", "calculate", "edit-doc", "sign(k1)", "sign(k2)", "unsign", "add-stamp", "alter-stamp", "add-link", "validate", "verify(k1)", "roundtrip", `parse(sigs:[""])`, "parse(sigs:[null])", "parse(sigs:[truncated])", "reinsert(extracted+edited)", "parse(null rows in links/stamps)", "digest-in-capitals"}

type c10msig struct {
	signer int
	hdr    *jmut.Node
}

// model: the four abstract facts (plus what is needed to evaluate them)
type c10model struct {
	hasDoc   bool
	docKind  int // 0 valid+code, 1 valid without code, 2 invalid
	digestOK bool
	sigs     []c10msig
	stamps   int
	edits    int
	fakeSigs bool // the signature list holds entries that are not real signatures (after a parse of edited sigs)
}

func (m *c10model) docValid(signed bool) bool {
	if !m.hasDoc {
		return false
	}
	switch m.docKind {
	case 0:
		return true
	case 1:
		return !signed
	}
	return false
}

func (m *c10model) abstract() string {
	return fmt.Sprintf("doc=%v/kind=%d digest=%v sigs=%d stamps=%v fake=%v", m.hasDoc, m.docKind, m.digestOK, len(m.sigs), m.stamps > 0, m.fakeSigs)
}

type c10env struct {
	docs [3][]byte
	keys [2]*dsig.PrivateKey
}

func c10docs() ([3][]byte, error) { return c10docsFrom("examples/es/out/invoice-es-es.json") }

// c10docsFrom builds the three inserted documents (valid with code, valid
// without code, invalid) from a shipped example of any billing document type.
func c10docsFrom(rel string) ([3][]byte, error) {
	var out [3][]byte
	b, err := os.ReadFile(filepath.Join(ev.Repo(), rel))
	if err != nil {
		return out, err
	}
	doc, err := gx.DocJSON(b)
	if err != nil {
		return out, err
	}
	n, err := jmut.Parse(doc)
	if err != nil {
		return out, err
	}
	n.Del("uuid")
	out[0] = n.Bytes()
	n1 := n.Clone()
	n1.Del("code")
	out[1] = n1.Bytes()
	n2 := n.Clone()
	if s := n2.Get("supplier"); s != nil {
		s.Del("name")
	}
	if !strings.Contains(rel, "invoice") {
		// a supplier without a name is not invalid in every document type; an undefined type is
		n2.Set("type", jmut.S("zz-undefined-type"))
	}
	out[2] = n2.Bytes()
	return out, nil
}

// c10editMeta edits the extracted document in place (any billing document type).
func c10editMeta(doc any, n int) bool {
	set := func(m *cbc.Meta) {
		if *m == nil {
			*m = cbc.Meta{}
		}
		(*m)["edit"] = fmt.Sprint(n)
	}
	switch d := doc.(type) {
	case *bill.Invoice:
		if d == nil {
			return false
		}
		set(&d.Meta)
	case *bill.Order:
		if d == nil {
			return false
		}
		set(&d.Meta)
	case *bill.Delivery:
		if d == nil {
			return false
		}
		set(&d.Meta)
	case *bill.Payment:
		if d == nil {
			return false
		}
		set(&d.Meta)
	default:
		return false
	}
	return true
}

func hdrJSON(e *gobl.Envelope) *jmut.Node {
	b, err := json.Marshal(e.Head)
	if err != nil {
		return nil
	}
	n, _ := jmut.Parse(b)
	return n
}

type c10step struct {
	Op      string `json:"op"`
	Outcome string `json:"outcome"`
	NSigs   int    `json:"nsigs"`
}

// runSeq executes one history. Returns the abstract transitions taken.
func c10run(c *Ctx, cx *c10env, seq []c10op, trans map[string]bool) (nontriv bool) {
	env := gobl.NewEnvelope()
	m := &c10model{}
	var trace []c10step
	fail := func(sig, desc string) {
		names := make([]string, len(seq))
		for i, o := range seq {
			names[i] = c10names[o]
		}
		c.R.Fail(sig, desc+" | history: "+strings.Join(names, " → "), map[string]any{"history": names, "trace": trace})
	}
	for _, op := range seq {
		before := m.abstract()
		outcome := "ok"
		var err error
		var pan any
		wantErrKey := "" // "" means success expected
		skipOutcome := false
		switch op {
		case opInsertValid, opInsertNoCode, opInsertInvalid:
			kind := int(op - opInsertValid)
			obj := new(schema.Object)
			if e := json.Unmarshal(cx.docs[kind], obj); e != nil {
				c.R.Inconclusive("base-doc-unparseable")
				return
			}
			pan, _ = Safely(func() { err = env.Insert(obj) })
			m.hasDoc, m.docKind, m.digestOK = true, kind, true
		case opCalculate:
			pan, _ = Safely(func() { err = env.Calculate() })
			if !m.hasDoc {
				wantErrKey = "no-document"
			} else {
				m.digestOK = true
			}
		case opEditDoc:
			if c10editMeta(env.Extract(), m.edits+1) {
				m.edits++
				m.digestOK = false
			}
			skipOutcome = true
		case opParseNullRows:
			// the serialised envelope with a null row put in front of its links and
			// stamps (parsing accepts such rows; they carry no content)
			b, merr := json.Marshal(env)
			if merr != nil {
				skipOutcome = true
				break
			}
			n, _ := jmut.Parse(b)
			touched := false
			if hd := n.Get("head"); hd != nil && hd.K == jmut.Obj {
				for _, k := range []string{"links", "stamps"} {
					if l := hd.Get(k); l != nil && l.K == jmut.Arr && len(l.A) > 0 {
						l.A = append([]*jmut.Node{jmut.Nl()}, l.A...)
						touched = true
					}
				}
			}
			if touched {
				ne := new(gobl.Envelope)
				pan, _ = Safely(func() { err = json.Unmarshal(n.Bytes(), ne) })
				if err == nil && pan == nil {
					env = ne
					if env.Head == nil {
						env.Head = head.NewHeader()
					}
				}
			}
			err = nil
			skipOutcome = true
		case opDigestUpper:
			// the header digest written in capital hex letters: another text, so it no
			// longer matches (every place that evaluates "digest matches" compares texts)
			if env.Head != nil && env.Head.Digest != nil {
				if up := strings.ToUpper(env.Head.Digest.Value); up != env.Head.Digest.Value {
					env.Head.Digest.Value = up
					if m.hasDoc {
						m.digestOK = false
					}
				}
			}
			skipOutcome = true
		case opReinsertEdited:
			// extract the document, edit it in place, hand the same pointer back
			doc := env.Extract()
			if !c10editMeta(doc, m.edits+1) {
				skipOutcome = true
				break
			}
			m.edits++
			pan, _ = Safely(func() { err = env.Insert(doc) })
			m.digestOK = true
		case opSignK1, opSignK2:
			nontriv = true
			k := int(op - opSignK1)
			pan, _ = Safely(func() { err = env.Sign(cx.keys[k]) })
			switch {
			case !m.docValid(true) || m.fakeSigs:
				wantErrKey = "validation"
			case !m.digestOK:
				wantErrKey = "digest"
			}
			if wantErrKey == "" {
				m.sigs = append(m.sigs, c10msig{k, hdrJSON(env)})
			} else {
				m.sigs = nil
				m.fakeSigs = false
			}
		case opUnsign:
			env.Unsign()
			m.sigs = nil
			m.fakeSigs = false
			skipOutcome = true
		case opAddStamp:
			// providers of successive stamps: a simple key, a composite key that
			// contains it, a part of that composite (distinct providers all)
			provs := []cbc.Key{"verif-a", "verif-a+seal", "seal"}
			pi := m.stamps
			if pi >= len(provs) {
				pi = len(provs) - 1
			}
			env.Head.AddStamp(&head.Stamp{Provider: provs[pi], Value: "A-1"})
			m.stamps++
			skipOutcome = true
		case opAlterStamp:
			for _, st := range env.Head.Stamps {
				if st != nil { // (a parse may have put null rows in the list)
					st.Value += "x"
					break
				}
			}
			skipOutcome = true
		case opAddLink:
			env.Head.AddLink(&head.Link{Key: "doc", URL: "https://example.com/doc"})
			skipOutcome = true
		case opValidate:
			pan, _ = Safely(func() { err = env.Validate() })
			signed := len(m.sigs) > 0 || m.fakeSigs
			switch {
			case !m.hasDoc:
				wantErrKey = "validation"
			case !m.docValid(signed) || (m.stamps > 0 && !signed) || m.fakeSigs:
				wantErrKey = "validation"
			case !m.digestOK:
				wantErrKey = "digest"
			}
		case opVerifyK1:
			pan, _ = Safely(func() { err = env.Verify(cx.keys[0].Public()) })
			ok := len(m.sigs) > 0 && !m.fakeSigs
			cur := hdrJSON(env)
			for _, s := range m.sigs {
				if s.signer != 0 || cur == nil || !ownContains(cur, s.hdr) {
					ok = false
				}
			}
			if !ok {
				wantErrKey = "*" // any error
			}
		case opRoundtrip:
			nontriv = true
			var b []byte
			pan, _ = Safely(func() {
				b, err = json.Marshal(env)
				if err == nil {
					ne := new(gobl.Envelope)
					if err = json.Unmarshal(b, ne); err == nil {
						env = ne
					}
				}
			})
			if env.Head == nil {
				env.Head = head.NewHeader()
			}
			if !m.hasDoc {
				// an envelope without a document is outside the statement: either outcome
				err = nil
				skipOutcome = true
			}
		case opParseEmptySig, opParseNullSig, opParseTruncSig:
			nontriv = true
			b, merr := json.Marshal(env)
			if merr != nil {
				skipOutcome = true
				break
			}
			n, _ := jmut.Parse(b)
			var entry *jmut.Node
			switch op {
			case opParseEmptySig:
				entry = jmut.S("")
			case opParseNullSig:
				entry = jmut.Nl()
			default:
				entry = jmut.S("eyJhbGciOiJFUzI1NiJ9.e30")
			}
			sg := n.Get("sigs")
			if sg == nil {
				sg = jmut.Ar()
				n.Set("sigs", sg)
			}
			sg.A = append(sg.A, entry)
			ne := new(gobl.Envelope)
			pan, _ = Safely(func() { err = json.Unmarshal(n.Bytes(), ne) })
			if err == nil && pan == nil {
				env = ne
				if env.Head == nil {
					env.Head = head.NewHeader()
				}
				m.fakeSigs = true
			}
			// either outcome is fine as long as the invariants below hold
			err = nil
			skipOutcome = true
		}
		if pan != nil {
			fail("panic:"+c10names[op], fmt.Sprintf("%s panicked in state [%s]: %v", c10names[op], before, pan))
			return
		}
		if err != nil {
			outcome = "error:" + gx.ErrKey(err)
			if gx.ErrKey(err) == "" {
				outcome = "error:(unkeyed)"
			}
		}
		trace = append(trace, c10step{c10names[op], outcome, len(env.Signatures)})
		trans[before+" --"+c10names[op]+"--> "+outcome] = true
		if !skipOutcome {
			switch {
			case wantErrKey == "" && err != nil:
				fail(fmt.Sprintf("step:%s:expected-ok:got-%s", c10names[op], outcome), fmt.Sprintf("%s in state [%s] should succeed but returned %v", c10names[op], before, err))
				return
			case wantErrKey == "*" && err == nil:
				fail(fmt.Sprintf("step:%s:expected-error:got-ok", c10names[op]), fmt.Sprintf("%s in state [%s] should fail but succeeded", c10names[op], before))
				return
			case wantErrKey != "" && wantErrKey != "*" && err == nil:
				fail(fmt.Sprintf("step:%s:expected-%s:got-ok", c10names[op], wantErrKey), fmt.Sprintf("%s in state [%s] should fail with %s but succeeded", c10names[op], before, wantErrKey))
				return
			case wantErrKey != "" && wantErrKey != "*" && gx.ErrKey(err) != wantErrKey:
				fail(fmt.Sprintf("step:%s:expected-%s:got-%s", c10names[op], wantErrKey, outcome), fmt.Sprintf("%s in state [%s] should fail with key %s, got %v", c10names[op], before, wantErrKey, err))
				return
			}
		}
		// invariants after every step
		if (op == opSignK1 || op == opSignK2) && err != nil && len(env.Signatures) != 0 {
			fail("invariant:failed-sign-leaves-signatures", fmt.Sprintf("Sign failed (%v) but %d signatures remain", err, len(env.Signatures)))
			return
		}
		if !m.fakeSigs && len(env.Signatures) != len(m.sigs) {
			fail("invariant:signature-count", fmt.Sprintf("after %s: %d signatures, model has %d", c10names[op], len(env.Signatures), len(m.sigs)))
			return
		}
		var verr error
		vp, _ := Safely(func() { verr = env.Validate() })
		if vp != nil {
			fail("panic:validate-after:"+c10names[op], fmt.Sprintf("Validate panicked after %s: %v", c10names[op], vp))
			return
		}
		if verr == nil {
			real := 0
			for i, s := range env.Signatures {
				if s == nil || s.String() == "" {
					fail("invariant:unreal-signature-validates", fmt.Sprintf("envelope validates although sigs[%d] is not a real signature (after %s)", i, c10names[op]))
					return
				}
				if _, perr := dsig.ParseSignature(s.String()); perr != nil {
					fail("invariant:unreal-signature-validates", fmt.Sprintf("envelope validates although sigs[%d] does not parse (after %s)", i, c10names[op]))
					return
				}
				real++
			}
			if len(env.Head.Stamps) > 0 && real == 0 {
				fail("invariant:stamps-on-unsigned", fmt.Sprintf("envelope with stamps validates without a signature (after %s)", c10names[op]))
				return
			}
		}
		// verifying must never panic, whatever the signature list holds
		if pv, _ := Safely(func() { _ = env.Verify(cx.keys[0].Public()); _ = env.Verify() }); pv != nil {
			fail("panic:verify-after:"+c10names[op], fmt.Sprintf("Verify panicked after %s: %v", c10names[op], pv))
			return
		}
	}
	return nontriv
}

func runC10(c *Ctx) {
	c.R.Rule("operation sequences over the envelope API (20 operations incl. the header digest rewritten in capital letters, reinsert of the extracted, edited document, a parse with null rows in the header lists, insert of valid / valid-without-code / invalid documents, calculate, edit, sign with two keys, unsign, stamps, links, validate, verify, round trip, parse of a serialised form whose sigs holds \"\", null or a truncated JWS): exhaustive up to length 4 (quick) / 5 (thorough) from a new envelope, plus every history insert → a → sign → b → observer, plus random sequences of length 6-15; non-trivial = the history contains a sign, round-trip or parse step; distinct by sequence")
	c.R.Assume("reference model: outcome of each step is a function of (document present/valid for signing, digest matches, signatures present, signed headers contained); a failed Sign removes all signatures (as documented in Envelope.Sign)")
	docs, err := c10docs()
	if err != nil {
		c.R.Inconclusive("base-docs:" + err.Error())
		return
	}
	cx := &c10env{docs: docs, keys: [2]*dsig.PrivateKey{dsig.NewES256Key(), dsig.NewES256Key()}}
	// exhaustive: every sequence up to fullLen from a new envelope, and every
	// sequence up to insLen whose first step inserts a document
	fullLen := c.N(3, 4)
	insLen := c.N(4, 6)
	n := int(nC10Ops)
	type spec struct {
		l     int
		first int // -1: any first op
	}
	var specs []spec
	for l := 1; l <= fullLen; l++ {
		specs = append(specs, spec{l, -1})
	}
	for l := fullLen + 1; l <= insLen; l++ {
		for f := 0; f < 3; f++ {
			if l == 6 && f != 0 {
				continue // length 6 only from the valid document (cost)
			}
			specs = append(specs, spec{l, f})
		}
	}
	total := 0
	chunks := 256
	results := make([]map[string]bool, chunks)
	for i := range results {
		results[i] = map[string]bool{}
	}
	for _, sp := range specs {
		free := sp.l
		if sp.first >= 0 {
			free--
		}
		count := 1
		for i := 0; i < free; i++ {
			count *= n
		}
		total += count
		c.Parallel(chunks, func(ci int) {
			trans := results[ci]
			var cnt, nt int64
			for s := ci; s < count; s += chunks {
				seq := make([]c10op, sp.l)
				x := s
				for i := sp.l - 1; i >= sp.l-free; i-- {
					seq[i] = c10op(x % n)
					x /= n
				}
				if sp.first >= 0 {
					seq[0] = c10op(sp.first)
				}
				cnt++
				if c10run(c, cx, seq, trans) {
					nt++
				}
			}
			c.R.Cases(cnt, nt)
		})
	}
	maxLen := insLen
	// all histories insert → a → sign(k1) → b → c with any a, b and an observing
	// c: what is done before and after signing, seen by every observer
	{
		observers := []c10op{opValidate, opVerifyK1, opSignK2, opRoundtrip, opSignK1, opCalculate}
		count := n * n * len(observers)
		total += count
		c.Parallel(chunks, func(ci int) {
			trans := results[ci]
			var cnt, nt int64
			for s := ci; s < count; s += chunks {
				seq := []c10op{opInsertValid, c10op(s % n), opSignK1, c10op((s / n) % n), observers[s/(n*n)]}
				cnt++
				if c10run(c, cx, seq, trans) {
					nt++
				}
			}
			c.R.Cases(cnt, nt)
		})
	}
	// the other billing document types (order, delivery, payment): every history
	// up to length 3 and the structured family; the model is the same (a document
	// without its code is valid but cannot be signed)
	for _, rel := range []string{"examples/es/out/order.json", "examples/es/out/delivery.json", "examples/es/out/payment.json"} {
		od, err := c10docsFrom(rel)
		if err != nil {
			c.R.Count("other_type_base_missing", 1)
			continue
		}
		ox := &c10env{docs: od, keys: cx.keys}
		var seqs [][]c10op
		for a := 0; a < n; a++ {
			for b := 0; b < n; b++ {
				for f := 0; f < 3; f++ {
					seqs = append(seqs, []c10op{c10op(f), c10op(a), c10op(b)})
				}
				for _, obs := range []c10op{opValidate, opVerifyK1, opSignK2, opRoundtrip} {
					seqs = append(seqs, []c10op{opInsertValid, c10op(a), opSignK1, c10op(b), obs})
					seqs = append(seqs, []c10op{opInsertNoCode, c10op(a), opSignK1, c10op(b), obs})
				}
			}
		}
		total += len(seqs)
		c.Parallel(chunks, func(ci int) {
			trans := results[ci]
			var cnt, nt int64
			for s := ci; s < len(seqs); s += chunks {
				cnt++
				if c10run(c, ox, seqs[s], trans) {
					nt++
				}
			}
			c.R.Cases(cnt, nt)
		})
		c.R.Count("histories_on:"+rel, int64(len(seqs)))
	}
	// random longer histories
	nRand := c.N(3000, 100000)
	c.Parallel(chunks, func(ci int) {
		rng := c.Rand(uint64(ci))
		trans := results[ci]
		for i := 0; i < nRand/chunks; i++ {
			l := 6 + rng.IntN(10)
			seq := make([]c10op, l)
			for j := range seq {
				seq[j] = c10op(rng.IntN(n))
			}
			// most histories should start from a document
			if rng.IntN(4) != 0 {
				seq[0] = c10op(rng.IntN(3))
			}
			nt := c10run(c, cx, seq, trans)
			c.R.Case(nt, ev.Hash(fmt.Sprint(seq)))
		}
	})
	all := map[string]bool{}
	states := map[string]bool{}
	for _, t := range results {
		for k := range t {
			all[k] = true
			states[strings.SplitN(k, " --", 2)[0]] = true
		}
	}
	c.R.Set("abstract_states_reached", len(states))
	c.R.Set("distinct_transitions", len(all))
	c.R.Set("exhaustive_sequences", fmt.Sprintf("all %d sequences of length 1-%d over %d operations", total, maxLen, n))
	i := 0
	for k := range all {
		if i >= 6 {
			break
		}
		c.R.Sample(k)
		i++
	}
	c.R.Sample(map[string]any{"history": []string{"insert(valid+code)", "edit-doc", "sign(k1)"}, "expected": "sign fails with key digest and leaves no signatures"})
	c.Require("histories_on:examples/es/out/payment.json", "histories_on:examples/es/out/order.json")
}
