package checks

import (
	"encoding/json"
	"math/rand/v2"

	"github.com/invopop/gobl/bill"
	"github.com/invopop/gobl/schema"
)

func schemaWithDataImpl(o []byte) schema.Option { return bill.WithData(json.RawMessage(o)) }

// nil2opt: a correction requested through the typed option instead of JSON.
func nil2opt() schema.Option { return bill.Credit }

func newRng(seed int64, stream uint64) *rand.Rand {
	return rand.New(rand.NewPCG(uint64(seed)*0x9E3779B97F4A7C15+0xC14, stream))
}
