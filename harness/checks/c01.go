package checks

import (
	"encoding/json"
	"fmt"
	"math/big"
	"sort"
	"strings"

	"verif/internal/corpus"
	"verif/internal/dec"
	"verif/internal/ev"
	"verif/internal/gen"
	"verif/internal/gx"
)

// C01 — document totals equal exact decimal arithmetic over the inputs.
//
// Two oracles: (1) internal/refcalc, an independent statement of the documented
// calculation procedure in exact big-decimal arithmetic, compared figure by
// figure (value and number of decimals); (2) under 'precise', the same
// procedure carried with 12 more working decimals (≈ never rounded): no
// presented total of an ordinary-sized document may be a full minor unit away.

func init() { Register("C01", runC01) }

func featSig(feats map[string]bool) string {
	// a short, stable feature set for signatures: only calculation-relevant classes
	keep := []string{"breakdown", "exchange-rate", "alt-price", "prices-include", "advance-percent", "advance-fixed", "due-percent", "charge-rate-quantity", "line-dc-percent-base", "doc-dc-percent-base", "fixed-amount-odd-precision", "preset-rounding", "surcharge", "retained"}
	var out []string
	for _, k := range keep {
		if feats[k] {
			out = append(out, k)
		}
	}
	if len(out) > 3 {
		out = out[:3]
	}
	if len(out) == 0 {
		return "basic"
	}
	return strings.Join(out, "+")
}

// judgeBill compares one run and reports under property id-specific prefix.
func judgeBill(c *Ctx, r *billRun, origin string, feats map[string]bool, classFilter func(class string) bool) (compared bool) {
	switch {
	case r.Panic != nil:
		// no figure is presented at all: the calculation of a well-formed document crashed
		c.R.Count("panics", 1)
		c.R.Fail("panic:"+r.PanicAt, fmt.Sprintf("%s: calculation panicked: %v", origin, r.Panic), map[string]any{"origin": origin, "input": json.RawMessage(r.In)})
		return false
	case r.CalcErr != nil:
		c.R.Count("calculation_refused", 1)
		return false
	case r.RefErr != nil:
		c.R.Count("reference_unsupported:"+trunc(r.RefErr.Error()), 1)
		return false
	case r.Ref.OutOfDomain:
		c.R.Count("out_of_2^52_domain", 1)
		return false
	}
	diffs := compareFigures(r)
	for _, d := range diffs {
		if classFilter != nil && !classFilter(d.Class) {
			continue
		}
		c.R.Fail(fmt.Sprintf("field:%s:%s", d.Class, r.Rule),
			fmt.Sprintf("%s: %s is %s, exact arithmetic over the inputs with the documented rounding points gives %s (rule %s, currency %s)", origin, d.Path, d.Real, d.Ref, r.Rule, r.Real.Currency),
			map[string]any{"origin": origin, "path": d.Path, "real": d.Real, "reference": d.Ref, "rule": r.Rule, "input": json.RawMessage(r.In)})
		break // one report per document is enough
	}
	return true
}

func ordinarySize(r *billRun) bool {
	in := r.RefIn
	rows := len(in.Lines) + len(in.Discounts) + len(in.Charges)
	if rows > 20 {
		return false
	}
	lim := dec.New(10000, 0)
	for _, l := range in.Lines {
		q, ok := dec.Parse(l.Quantity)
		if !ok {
			return false
		}
		if q.Sign() < 0 {
			q = q.Neg()
		}
		if q.Cmp(lim) > 0 {
			return false
		}
		if len(l.Discounts)+len(l.Charges) > 3 {
			return false
		}
		// a discount/charge computed from an explicit base is rounded at that base's
		// own precision by design; keep those out of the "never rounded" comparison
		for _, d := range append(append([]struct{ b *string }{}, lineBases(l.Discounts)...), lineBases(l.Charges)...) {
			if d.b != nil {
				return false
			}
		}
		for _, ch := range l.Charges {
			if ch.Rate != nil {
				return false // rate × quantity is kept at the rate's own precision
			}
		}
		if len(l.Breakdown) > 0 {
			return false // the derived price is an input-level rounding
		}
	}
	return true
}

func lineBases[T any](list []T) []struct{ b *string } {
	var out []struct{ b *string }
	b, _ := json.Marshal(list)
	var xs []struct {
		Base *string `json:"base"`
	}
	_ = json.Unmarshal(b, &xs)
	for _, x := range xs {
		out = append(out, struct{ b *string }{x.Base})
	}
	return out
}

func runC01(c *Ctx) {
	c.R.Rule("corpus invoices/orders/deliveries recalculated + synthesised documents (all shipped regimes and none, currencies with 0/2/3/4/8 decimals, both rounding rules and regime defaults, 1-12 lines (thorough 40), sub-line breakdowns, signed quantities and prices with 0-6 decimals, percentage/fixed/base discounts and charges at line and document level, rate×quantity charges, foreign-currency items with exchange rates or alternative prices, percentage and fixed advances, due dates, tax-included prices; a third of the numbers constructed to land on a half unit at a rounding point). non-trivial = calculation succeeded and at least one rounding point dropped digits; distinct by input")
	c.R.Assume("reference: harness/internal/refcalc encodes the rounding points the library documents/applies today (DESIGN.md §3.2); percentages of rate keys are read from the calculated lines (C12 decides those)")
	c.R.Assume("unrounded bound: same procedure with 12 extra working decimals; ordinary size = ≤20 taxable rows, |quantity| ≤ 10^4, ≤3 discounts/charges per line, no explicit bases, rate charges or breakdowns")
	w := getWorld()
	// (0) corpus
	var corp []corpus.Item
	for _, it := range corpus.Golden() {
		if it.Type == "bill/invoice" || it.Type == "bill/order" || it.Type == "bill/delivery" {
			corp = append(corp, it)
		}
	}
	c.Parallel(len(corp), func(i int) {
		doc, err := gx.DocJSON(corp[i].Data)
		if err != nil {
			return
		}
		r := runBill(doc, 0)
		if judgeBill(c, r, corp[i].Rel, map[string]bool{"corpus": true}, nil) {
			c.R.Count("corpus_documents_compared", 1)
			c.R.Case(r.Ref.Roundings > 0, ev.HashBytes(doc))
		}
	})

	n := c.N(6000, 400000)
	chunks := 64
	schemas := []string{"bill/invoice", "bill/invoice", "bill/invoice", "bill/order", "bill/delivery"}
	featCount := make([]map[string]int64, chunks)
	c.Parallel(chunks, func(ci int) {
		rng := c.Rand(uint64(ci))
		g := gen.New(rng, w.defs)
		fc := map[string]int64{}
		featCount[ci] = fc
		for k := 0; k < n/chunks; k++ {
			p := gen.Profile{Schema: schemas[rng.IntN(len(schemas))], MaxLines: c.N(12, 40), Preset: true}
			if k%16 == 15 {
				// several fixed document discounts and charges with more decimals than the
				// currency, under each rule: where each of them is rounded decides the sums
				p.ManyOddFixed = true
				p.MaxLines = 3
				p.Rule = []string{"currency", "precise", ""}[(k/16)%3]
				fc["documents_with_several_excess_decimal_fixed_rows"]++
			}
			d := g.Document(p)
			r := runBill(d.JSON, 0)
			if !judgeBill(c, r, "generated", d.Features, nil) {
				c.R.Case(false, ev.HashBytes(d.JSON))
				continue
			}
			c.R.Case(r.Ref.Roundings > 0, ev.HashBytes(d.JSON))
			fc["documents"]++
			fc["lines"] += int64(len(r.Real.Lines))
			fc["rounding_points_with_dropped_digits"] += int64(r.Ref.Roundings)
			fc["exact_half_unit_ties"] += int64(r.Ref.Ties)
			for f := range d.Features {
				fc["feature:"+f]++
			}
			fc["regime:"+d.Regime]++
			fc["schema:"+p.Schema]++
			// (1b) the calculated document with one kind of row removed, recalculated:
			// nothing computed before may survive
			if k%4 == 0 {
				if name, ed := staleEdit(r.OutDoc, rng.IntN); ed != nil {
					r2 := runBill(ed, 0)
					if judgeBill(c, r2, "recalculated after removing "+name, d.Features, nil) {
						fc["recalculated_after_removing:"+name]++
					}
				}
			}
			// (2) unrounded bound under the precise rule
			if r.Rule == "precise" && r.Ref.HasTotals && ordinarySize(r) {
				hi := runBillRefOnly(r, 12)
				if hi != nil {
					fc["unrounded_bound_checked"]++
					unit := new(big.Rat).SetFrac(big.NewInt(1), dec.Pow10(r.Ref.C))
					pairs := []struct {
						name string
						real string
						hi   dec.D
					}{
						{"totals.sum", r.Real.Totals.Sum, hi.Pre.Sum}, {"totals.total", r.Real.Totals.Total, hi.Pre.Total}, {"totals.tax", r.Real.Totals.Tax, hi.Pre.Tax},
						{"totals.total_with_tax", r.Real.Totals.TotalWithTax, hi.Pre.TotalWithTax}, {"totals.payable", r.Real.Totals.Payable, hi.Pre.Payable},
					}
					if r.Real.Totals.Due != nil && hi.Pre.Due != nil {
						pairs = append(pairs, struct {
							name string
							real string
							hi   dec.D
						}{"totals.due", *r.Real.Totals.Due, *hi.Pre.Due})
					}
					for _, pr := range pairs {
						rv, ok := dec.Parse(pr.real)
						if !ok {
							continue
						}
						diff := new(big.Rat).Sub(rv.Rat(), pr.hi.Rat())
						if diff.Abs(diff).Cmp(unit) >= 0 {
							c.R.Fail("unrounded-bound:"+pr.name, fmt.Sprintf("precise rule: presented %s = %s but the never-rounded value is %s: a full minor unit apart", pr.name, pr.real, pr.hi), map[string]any{"input": json.RawMessage(d.JSON), "field": pr.name, "real": pr.real, "unrounded": pr.hi.String()})
							break
						}
					}
				}
			}
			if k == 0 && ci < 4 {
				c.R.Sample(map[string]any{"input": json.RawMessage(d.JSON), "rule": r.Rule, "payable": r.Real.Totals != nil && r.Real.Totals.Payable != "", "rounding_points": r.Ref.Roundings, "ties": r.Ref.Ties, "features": featureList(d.Features)})
			}
		}
	})
	total := map[string]int64{}
	for _, fc := range featCount {
		for k, v := range fc {
			total[k] += v
		}
	}
	var keys []string
	for k := range total {
		keys = append(keys, k)
	}
	sort.Strings(keys)
	for _, k := range keys {
		c.R.Count(k, total[k])
	}
	c.Require("documents", "documents_with_several_excess_decimal_fixed_rows", "corpus_documents_compared", "exact_half_unit_ties", "feature:preset-rounding", "feature:doc-dc-percent-base", "feature:breakdown", "feature:advance-percent", "feature:advance-zero-percent-with-amount", "recalculated_after_removing:charges", "unrounded_bound_checked")
}

// runBillRefOnly re-runs only the reference with extra working precision.
func runBillRefOnly(r *billRun, extra int) *refOut {
	w := getWorld()
	out, err := refCalcWith(r, w, extra)
	if err != nil {
		return nil
	}
	return out
}
