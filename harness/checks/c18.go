package checks

import (
	"encoding/json"
	"fmt"
	"os"
	"path/filepath"
	"regexp"
	"sort"
	"strings"
	"sync"

	"verif/internal/corpus"
	"verif/internal/defs"
	"verif/internal/ev"
	"verif/internal/gx"
	"verif/internal/jmut"
)

// C18 — validated documents only reference defined codes, keys and rates.
//
// Soundness only: whatever the library accepts (Calculate + Validate) is
// walked by a resolver that works from the published files under data/ alone.

func init() { Register("C18", runC18) }

type extDef struct {
	values  map[string]bool
	pattern *regexp.Regexp
	open    bool // neither values nor pattern: any value
}

type c18world struct {
	all          *defs.All
	currencies   map[string]bool
	countries    map[string]bool
	taxCountries map[string]bool
	exts         map[string]*extDef
	tagsAll      []string
	catsAll      []string
	ratesAll     []string
}

func loadEnum(file string) map[string]bool {
	out := map[string]bool{}
	b, err := os.ReadFile(filepath.Join(ev.Repo(), "data/schemas", file))
	if err != nil {
		return out
	}
	var s struct {
		Defs map[string]struct {
			OneOf []struct {
				Const string `json:"const"`
			} `json:"oneOf"`
		} `json:"$defs"`
	}
	if json.Unmarshal(b, &s) == nil {
		for _, d := range s.Defs {
			for _, o := range d.OneOf {
				out[o.Const] = true
			}
		}
	}
	return out
}

var (
	c18once sync.Once
	c18w    *c18world
)

func getC18World() *c18world {
	c18once.Do(func() {
		w := &c18world{all: getWorld().defs, exts: map[string]*extDef{}}
		w.currencies = loadEnum("currency/code.json")
		w.countries = loadEnum("l10n/iso-country-code.json")
		w.taxCountries = loadEnum("l10n/tax-country-code.json")
		for k := range w.taxCountries {
			w.countries[k] = true
		}
		addExt := func(list []defs.KeyDef) {
			for _, d := range list {
				e := w.exts[d.Key]
				if e == nil {
					e = &extDef{values: map[string]bool{}}
					w.exts[d.Key] = e
				}
				for _, v := range d.Values {
					if v.Code != "" {
						e.values[v.Code] = true
					}
					if v.Key != "" {
						e.values[v.Key] = true
					}
				}
				if d.Pattern != "" {
					if re, err := regexp.Compile(d.Pattern); err == nil {
						e.pattern = re
					}
				}
				e.open = len(e.values) == 0 && e.pattern == nil
			}
		}
		tags, cats, rates := map[string]bool{}, map[string]bool{}, map[string]bool{}
		for _, r := range w.all.RegimeList {
			addExt(r.Extensions)
			for _, ts := range r.Tags {
				for _, t := range ts.List {
					tags[t.Key] = true
				}
			}
			for _, c := range r.Categories {
				cats[c.Code] = true
				for _, rt := range c.Rates {
					rates[rt.Key] = true
				}
			}
		}
		for _, a := range w.all.Addons {
			addExt(a.Extensions)
			for _, ts := range a.Tags {
				for _, t := range ts.List {
					tags[t.Key] = true
				}
			}
		}
		for _, ct := range w.all.Catalogues {
			addExt(ct.Extensions)
		}
		for k := range tags {
			w.tagsAll = append(w.tagsAll, k)
		}
		for k := range cats {
			w.catsAll = append(w.catsAll, k)
		}
		for k := range rates {
			w.ratesAll = append(w.ratesAll, k)
		}
		sort.Strings(w.tagsAll)
		sort.Strings(w.catsAll)
		sort.Strings(w.ratesAll)
		c18w = w
	})
	return c18w
}

func (w *c18world) regimeFor(code string) *defs.Regime {
	if r := w.all.Regimes[code]; r != nil {
		return r
	}
	for _, r := range w.all.RegimeList {
		for _, a := range r.AltCodes {
			if a == code {
				return r
			}
		}
	}
	return nil
}

// resolve walks a validated document and returns the first reference that
// does not resolve in the published definitions.
func (w *c18world) resolve(doc *jmut.Node) (kind, where, detail string) {
	schema := strings.TrimPrefix(str(doc, "$schema"), "https://gobl.org/draft-0/")
	regCode := str(doc, "$regime")
	var reg *defs.Regime
	if regCode != "" {
		reg = w.regimeFor(regCode)
		if reg == nil {
			return "regime", "$regime", "regime " + regCode + " is not published"
		}
	}
	var addons []*defs.Addon
	if a := doc.Get("$addons"); a != nil {
		for _, x := range a.A {
			ad := w.all.Addons[x.S]
			if ad == nil {
				return "addon", "$addons", "addon " + x.S + " is not published"
			}
			addons = append(addons, ad)
		}
	}
	if t := doc.Get("$tags"); t != nil {
		offered := map[string]bool{}
		collect := func(sets []defs.TagSet) {
			for _, ts := range sets {
				if ts.Schema == schema {
					for _, k := range ts.List {
						offered[k.Key] = true
					}
				}
			}
		}
		if reg != nil {
			collect(reg.Tags)
		}
		for _, ad := range addons {
			collect(ad.Tags)
		}
		for _, x := range t.A {
			if !offered[x.S] {
				return "tag", "$tags", fmt.Sprintf("tag %q is not offered for %s by regime %s or the active addons", x.S, schema, regCode)
			}
		}
	}
	var rk, rw, rd string
	doc.Walk(func(p jmut.Path, n *jmut.Node) {
		if rk != "" || len(p) == 0 {
			return
		}
		last := p[len(p)-1]
		key := last.Key
		switch {
		case key == "currency" && n.K == jmut.Str, (key == "from" || key == "to") && n.K == jmut.Str && strings.Contains(p.Class(), "exchange_rates"):
			if !w.currencies[n.S] {
				rk, rw, rd = "currency", p.Class(), "currency "+n.S+" is not a published code"
			}
		case (key == "country" || key == "origin") && n.K == jmut.Str:
			// the schemas publish two lists: tax countries (tax identities, tax combos,
			// tax summaries) and ISO countries (addresses, identities, origins)
			cls := p.Class()
			if strings.HasSuffix(cls, "taxes[].country") || strings.HasSuffix(cls, "tax_id.country") || strings.HasSuffix(cls, "rates[].country") {
				if !w.taxCountries[n.S] {
					rk, rw, rd = "country", cls, "tax country "+n.S+" is not a published tax country code"
				}
			} else if !w.countries[n.S] {
				rk, rw, rd = "country", p.Class(), "country "+n.S+" is not a published code"
			}
		case key == "ext" && n.K == jmut.Obj:
			for _, m := range n.M {
				def := w.exts[m.Key]
				if def == nil {
					rk, rw, rd = "ext-key", p.Class(), "extension key "+m.Key+" is not defined by any regime, addon or catalogue"
					return
				}
				if m.Val.K == jmut.Str && !def.open && !def.values[m.Val.S] && !(def.pattern != nil && def.pattern.MatchString(m.Val.S)) {
					rk, rw, rd = "ext-value", p.Class(), fmt.Sprintf("extension %s has value %q which is neither a defined code nor matches the declared pattern", m.Key, m.Val.S)
					return
				}
			}
		case key == "taxes" && n.K == jmut.Arr && (p.Class() == "lines[].taxes" || p.Class() == "discounts[].taxes" || p.Class() == "charges[].taxes"):
			// (complements define their own tax rows, which are not combos)
			for _, cb := range n.A {
				if cb.K != jmut.Obj || cb.Get("cat") == nil {
					continue
				}
				applying := reg
				if cc := str(cb, "country"); cc != "" {
					applying = w.regimeFor(cc) // may be nil: no regime applies to that country
				}
				if applying == nil {
					// no regime applies to this combo, so a rate key cannot belong to one
					if rate := str(cb, "rate"); rate != "" {
						rk, rw, rd = "rate", p.Class(), fmt.Sprintf("rate key %q on a combo of country %s, which has no published regime", rate, str(cb, "country"))
						return
					}
					continue
				}
				cat := applying.CategoryDef(str(cb, "cat"))
				if cat == nil {
					rk, rw, rd = "category", p.Class(), fmt.Sprintf("category %q is not defined in regime %s", str(cb, "cat"), applying.Country)
					return
				}
				if rate := str(cb, "rate"); rate != "" {
					ok := false
					for _, r := range cat.Rates {
						if r.Key == rate {
							ok = true
						}
						for _, part := range strings.Split(rate, "+") {
							if part == r.Key {
								ok = true
							}
						}
					}
					if !ok {
						rk, rw, rd = "rate", p.Class(), fmt.Sprintf("rate key %q does not resolve in category %s of regime %s", rate, cat.Code, applying.Country)
						return
					}
				}
			}
		}
	})
	return rk, rw, rd
}

type c18variant struct {
	kind string
	desc string
	doc  []byte
}

// variants of one corpus document: every reference position replaced.
func (w *c18world) variants(doc *jmut.Node, rngPick func(n int) int, full bool) []c18variant {
	var out []c18variant
	emit := func(kind, desc string, d *jmut.Node) {
		d.Del("totals")
		out = append(out, c18variant{kind, desc, d.Bytes()})
	}
	sample := func(list []string, n int) []string {
		if full || len(list) <= n {
			return list
		}
		var o []string
		for i := 0; i < n; i++ {
			o = append(o, list[rngPick(len(list))])
		}
		return o
	}
	var regs, addons, curs, countries, extKeys []string
	for r := range w.all.Regimes {
		regs = append(regs, r)
	}
	for a := range w.all.Addons {
		addons = append(addons, a)
	}
	for c := range w.currencies {
		curs = append(curs, c)
	}
	for c := range w.countries {
		countries = append(countries, c)
	}
	for k := range w.exts {
		extKeys = append(extKeys, k)
	}
	sort.Strings(regs)
	sort.Strings(addons)
	sort.Strings(curs)
	sort.Strings(countries)
	sort.Strings(extKeys)
	// codes that only one of the two published country lists holds (GR/EL, XI, XU…):
	// always tried at every country position
	iso := loadEnum("l10n/iso-country-code.json")
	var countryEdge []string
	for _, cc := range countries {
		if iso[cc] != w.taxCountries[cc] {
			countryEdge = append(countryEdge, cc)
		}
	}
	// root references
	for _, r := range append(append([]string{}, regs...), "ZZ", "zz", "GR", "XX") {
		d := doc.Clone()
		d.Set("$regime", jmut.S(r))
		emit("regime", "$regime="+r, d)
	}
	for _, a := range append(append([]string{}, addons...), "zz-none-v1", "es-tbai-v9") {
		d := doc.Clone()
		d.Set("$addons", jmut.Ar(jmut.S(a)))
		emit("addon", "$addons=["+a+"]", d)
		if cur := doc.Get("$addons"); cur != nil && len(cur.A) > 0 {
			d2 := doc.Clone()
			d2.Get("$addons").A = append(d2.Get("$addons").A, jmut.S(a))
			emit("addon", "$addons+="+a, d2)
		}
	}
	for _, t := range append(append([]string{}, w.tagsAll...), "zz-tag", "Simplified") {
		d := doc.Clone()
		d.Set("$tags", jmut.Ar(jmut.S(t)))
		emit("tag", "$tags=["+t+"]", d)
	}
	// places that can hold references but that no example uses: sub-lines
	// (substituted, breakdown), item identities and origin, line/document charge and
	// discount extensions, ordering and delivery parties. A small sub-structure with
	// one undefined reference is grafted into each
	if lines := doc.Get("lines"); lines != nil && lines.K == jmut.Arr && len(lines.A) > 0 && lines.A[0].K == jmut.Obj {
		bad := []struct {
			name string
			item func() *jmut.Node
		}{
			{"origin=ZZ", func() *jmut.Node {
				return jmut.O(jmut.Member{Key: "name", Val: jmut.S("sub")}, jmut.Member{Key: "price", Val: jmut.S("1.00")}, jmut.Member{Key: "origin", Val: jmut.S("ZZ")})
			}},
			{"ext undefined key", func() *jmut.Node {
				return jmut.O(jmut.Member{Key: "name", Val: jmut.S("sub")}, jmut.Member{Key: "price", Val: jmut.S("1.00")}, jmut.Member{Key: "ext", Val: jmut.O(jmut.Member{Key: "zz-undefined-ext", Val: jmut.S("x")})})
			}},
			{"ext value outside its list", func() *jmut.Node {
				return jmut.O(jmut.Member{Key: "name", Val: jmut.S("sub")}, jmut.Member{Key: "price", Val: jmut.S("1.00")}, jmut.Member{Key: "ext", Val: jmut.O(jmut.Member{Key: "es-tbai-product", Val: jmut.S("nothing-like-it")})})
			}},
			{"identity country=QQ", func() *jmut.Node {
				return jmut.O(jmut.Member{Key: "name", Val: jmut.S("sub")}, jmut.Member{Key: "price", Val: jmut.S("1.00")}, jmut.Member{Key: "identities", Val: jmut.Ar(jmut.O(jmut.Member{Key: "country", Val: jmut.S("QQ")}, jmut.Member{Key: "code", Val: jmut.S("1")}))})
			}},
		}
		for _, b := range bad {
			for _, where := range []string{"substituted", "breakdown"} {
				d := doc.Clone()
				sub := jmut.O(jmut.Member{Key: "quantity", Val: jmut.S("1")}, jmut.Member{Key: "item", Val: b.item()})
				d.Get("lines").A[0].Set(where, jmut.Ar(sub))
				d.Del("totals")
				emit("graft", "lines[0]."+where+"[0].item with "+b.name, d)
			}
			// the same item as the line's own item
			d := doc.Clone()
			d.Get("lines").A[0].Set("item", b.item())
			d.Del("totals")
			emit("graft", "lines[0].item with "+b.name, d)
		}
		for _, where := range []string{"charges", "discounts"} {
			d := doc.Clone()
			d.Get("lines").A[0].Set(where, jmut.Ar(jmut.O(jmut.Member{Key: "reason", Val: jmut.S("x")}, jmut.Member{Key: "percent", Val: jmut.S("1%")}, jmut.Member{Key: "ext", Val: jmut.O(jmut.Member{Key: "zz-undefined-ext", Val: jmut.S("x")})})))
			d.Del("totals")
			emit("graft", "lines[0]."+where+"[0].ext undefined key", d)
			d2 := doc.Clone()
			d2.Set(where, jmut.Ar(jmut.O(jmut.Member{Key: "reason", Val: jmut.S("x")}, jmut.Member{Key: "percent", Val: jmut.S("1%")}, jmut.Member{Key: "ext", Val: jmut.O(jmut.Member{Key: "zz-undefined-ext", Val: jmut.S("x")})})))
			d2.Del("totals")
			emit("graft", where+"[0].ext undefined key", d2)
		}
		{
			d := doc.Clone()
			pay := d.Get("payment")
			if pay == nil || pay.K != jmut.Obj {
				pay = jmut.O()
				d.Set("payment", pay)
			}
			pay.Set("advances", jmut.Ar(jmut.O(jmut.Member{Key: "description", Val: jmut.S("d")}, jmut.Member{Key: "amount", Val: jmut.S("1.00")}, jmut.Member{Key: "currency", Val: jmut.S("ZZZ")})))
			d.Del("totals")
			emit("graft", "payment.advances[0].currency=ZZZ", d)
			d2 := doc.Clone()
			d2.Set("preceding", jmut.Ar(jmut.O(jmut.Member{Key: "code", Val: jmut.S("X1")}, jmut.Member{Key: "identities", Val: jmut.Ar(jmut.O(jmut.Member{Key: "country", Val: jmut.S("QQ")}, jmut.Member{Key: "code", Val: jmut.S("1")}))})))
			d2.Del("totals")
			emit("graft", "preceding[0].identities[0].country=QQ", d2)
			d3 := doc.Clone()
			d3.Set("preceding", jmut.Ar(jmut.O(jmut.Member{Key: "code", Val: jmut.S("X1")}, jmut.Member{Key: "currency", Val: jmut.S("ZZZ")}, jmut.Member{Key: "ext", Val: jmut.O(jmut.Member{Key: "zz-undefined-ext", Val: jmut.S("x")})})))
			d3.Del("totals")
			emit("graft", "preceding[0] with undefined currency and extension", d3)
		}
		for _, where := range []string{"ordering.buyer", "ordering.seller", "delivery.receiver", "payment.payee"} {
			parts := strings.Split(where, ".")
			d := doc.Clone()
			holder := d.Get(parts[0])
			if holder == nil || holder.K != jmut.Obj {
				holder = jmut.O()
				d.Set(parts[0], holder)
			}
			holder.Set(parts[1], jmut.O(jmut.Member{Key: "name", Val: jmut.S("P")}, jmut.Member{Key: "tax_id", Val: jmut.O(jmut.Member{Key: "country", Val: jmut.S("QQ")})}, jmut.Member{Key: "addresses", Val: jmut.Ar(jmut.O(jmut.Member{Key: "locality", Val: jmut.S("X")}, jmut.Member{Key: "country", Val: jmut.S("ZZ")}))}))
			d.Del("totals")
			emit("graft", where+" with undefined countries", d)
		}
	}
	// an addon together with each tag it offers for any document type: the tag is
	// only defined for this document when the addon offers it for this type
	for _, a := range addons {
		ad := w.all.Addons[a]
		if ad == nil {
			continue
		}
		seen := map[string]bool{}
		for _, ts := range ad.Tags {
			for _, t := range ts.List {
				if seen[t.Key] {
					continue
				}
				seen[t.Key] = true
				d := doc.Clone()
				d.Set("$addons", jmut.Ar(jmut.S(a)))
				d.Set("$tags", jmut.Ar(jmut.S(t.Key)))
				emit("addon+tag", "$addons=["+a+"] $tags=["+t.Key+"]", d)
			}
		}
	}
	// positions inside the document
	doc.Walk(func(p jmut.Path, n *jmut.Node) {
		if len(p) == 0 {
			return
		}
		key := p[len(p)-1].Key
		rep := func(kind string, vals []string) {
			for _, v := range vals {
				d := doc.Clone()
				if d.Replace(p, jmut.S(v)) {
					emit(kind, p.String()+"="+v, d)
				}
			}
		}
		switch {
		case key == "currency" && n.K == jmut.Str:
			rep("currency", append(sample(curs, 40), "ZZZ", "eur", "EURO", ""))
		case key == "country" && n.K == jmut.Str:
			rep("country", append(append(sample(countries, 40), countryEdge...), "ZZ", "XX", "es", "ESP"))
		case key == "cat" && n.K == jmut.Str:
			rep("category", append(append([]string{}, w.catsAll...), "ZZZ", "vat"))
		case key == "rate" && n.K == jmut.Str:
			// … and the bare parts of published composite keys (eqs of standard+eqs):
			// a part is a key of its own only where it is published as one
			var parts []string
			seenPart := map[string]bool{}
			for _, rk := range w.ratesAll {
				if strings.Contains(rk, "+") {
					for _, pt := range strings.Split(rk, "+") {
						if !seenPart[pt] {
							seenPart[pt] = true
							parts = append(parts, pt)
						}
					}
				}
			}
			rep("rate", append(append(append([]string{}, w.ratesAll...), parts...), "nope", "nope+standard", "standard+nope", "STANDARD"))
		case key == "ext" && n.K == jmut.Obj:
			for mi, m := range n.M {
				// other keys with the same value, same key with other values
				for _, k := range append(sample(extKeys, 25), "zz-undefined-ext", m.Key+"+other", m.Key+"+a+b", "zz+"+m.Key) {
					d := doc.Clone()
					e := d.At(p)
					e.M[mi].Key = k
					emit("ext-key", fmt.Sprintf("%s.%s→%s", p.String(), m.Key, k), d)
				}
				var vals []string
				if def := w.exts[m.Key]; def != nil {
					for v := range def.values {
						vals = append(vals, v)
					}
					sort.Strings(vals)
				}
				// near misses of defined values: other letter case, a character more or less
				near := []string{}
				for _, v := range append(sample(vals, 4), m.Val.S) {
					if v == "" {
						continue
					}
					near = append(near, strings.ToLower(v), strings.ToUpper(v), v+"0", v+"x", v[:len(v)-1], " "+v, v+" ")
					if len(v) > 1 {
						// the same characters with a separator between them
						h := len(v) / 2
						near = append(near, v[:h]+"-"+v[h:], v[:h]+"."+v[h:], v[:h]+" "+v[h:], v[:1]+"/"+v[1:])
					}
				}
				for _, v := range append(append(sample(vals, 12), "ZZZZ", "", "zz"), near...) {
					d := doc.Clone()
					e := d.At(p)
					e.M[mi].Val = jmut.S(v)
					emit("ext-value", fmt.Sprintf("%s.%s=%s", p.String(), m.Key, v), d)
				}
			}
			// add a defined / undefined extension to the map
			for _, k := range append(sample(extKeys, 10), "zz-undefined-ext") {
				d := doc.Clone()
				d.At(p).Set(k, jmut.S("01"))
				emit("ext-key", p.String()+"+"+k, d)
			}
			// a composite of a defined key with a valid value of that key
			for _, m := range n.M {
				d := doc.Clone()
				d.At(p).Set(m.Key+"+extra", m.Val.Clone())
				emit("ext-key", p.String()+"+"+m.Key+"+extra", d)
			}
		case key == "taxes" && n.K == jmut.Arr && len(n.A) > 0 && (p.Class() == "lines[].taxes" || p.Class() == "discounts[].taxes" || p.Class() == "charges[].taxes"):
			// combos with a country override, with and without a regime
			for _, cc := range []string{"PT", "FR", "ZZ", "XU", "GR"} {
				for _, cat := range []string{"VAT", "IRPF", "ZZZ"} {
					d := doc.Clone()
					cb := d.At(p).A[0]
					cb.Set("country", jmut.S(cc))
					cb.Set("cat", jmut.S(cat))
					cb.Del("rate")
					cb.Set("percent", jmut.S("10%"))
					emit("country-override", fmt.Sprintf("%s[0] country=%s cat=%s", p.String(), cc, cat), d)
				}
			}
			// … keeping or setting a rate key, which then has to resolve in the regime of that country
			for _, cc := range []string{"PT", "FR", "JP", "SE", "ZZ", "GR"} {
				for _, rate := range []string{"", "standard", "super-reduced", "general", "zz-undefined"} {
					d := doc.Clone()
					cb := d.At(p).A[0]
					if rate == "" && cb.Get("rate") == nil {
						continue
					}
					cb.Set("country", jmut.S(cc))
					if rate != "" {
						cb.Set("rate", jmut.S(rate))
						cb.Del("percent")
					}
					emit("country-override", fmt.Sprintf("%s[0] country=%s rate=%s", p.String(), cc, rate), d)
				}
			}
		}
	})
	return out
}

func runC18(c *Ctx) {
	c.R.Rule("for every corpus document and every reference position in it ($regime, $addons, $tags, currencies, countries, tax combo categories and rate keys, extension keys and values at any depth, country-override combos): replacement by every other value defined anywhere for that kind (quick: sampled for currencies, countries and extension keys) and by undefined-but-well-formed and malformed values; each variant is calculated and validated by the library; non-trivial = the variant was accepted, so the resolver ran on the validated document; distinct by (file, position, value)")
	c.R.Assume("resolver works from data/regimes, data/addons, data/catalogues and the published code lists in data/schemas (currency/code, l10n/*) only; rate keys resolve exactly or through a '+' component (the library's documented key rule); a combo with a country override that has no published regime is not constrained in its category but cannot carry a rate key; an extension without values or pattern accepts any value")
	w := getC18World()
	items := corpus.Golden()
	type job struct {
		it corpus.Item
		v  c18variant
	}
	var jobs []job
	rng := c.Rand(3)
	for _, it := range items {
		docB, err := gx.DocJSON(it.Data)
		if err != nil {
			continue
		}
		doc, err := jmut.Parse(docB)
		if err != nil {
			continue
		}
		// the unmodified document must resolve (sanity of the resolver)
		jobs = append(jobs, job{it, c18variant{"unmodified", "as shipped", docB}})
		for _, v := range w.variants(doc, rng.IntN, c.Thorough) {
			jobs = append(jobs, job{it, v})
		}
	}
	// documents without any regime (a supplier in a country that has none): their
	// currencies and countries must still be known codes
	for _, typ := range []string{"bill/invoice", "bill/order", "bill/delivery", "bill/payment"} {
		for _, cur := range []string{"JPY", "EUR", "USD", "JPX", "ZZZ", "eur", "EURO"} {
			for _, cc := range []string{"JP", "SE", "ZZ", "QQ"} {
				lines := `[{"quantity":"1","item":{"name":"thing","price":"100"},"taxes":[{"cat":"VAT","percent":"10%"}]}]`
				if typ == "bill/payment" {
					lines = `[{"debit":"100","document":{"code":"INV-1"}}]`
				}
				extra := ""
				if typ == "bill/payment" {
					extra = `,"type":"receipt","method":{"key":"credit-transfer"}`
				}
				doc := fmt.Sprintf(`{"$schema":"https://gobl.org/draft-0/%s","uuid":"0190a1b2-c3d4-7e5f-8a9b-0c1d2e3f4a5b","code":"R-1","issue_date":"2024-06-01","currency":%q%s,"supplier":{"name":"S","tax_id":{"country":%q}},"customer":{"name":"C"},"lines":%s}`, typ, cur, extra, cc, lines)
				jobs = append(jobs, job{corpus.Item{Rel: "generated:regime-less " + typ, Type: typ}, c18variant{"regime-less", fmt.Sprintf("currency=%s supplier country=%s", cur, cc), []byte(doc)}})
			}
		}
	}
	if max := c.N(60000, 3000000); len(jobs) > max {
		rng.Shuffle(len(jobs), func(i, j int) { jobs[i], jobs[j] = jobs[j], jobs[i] })
		jobs = jobs[:max]
	}
	c.R.Set("variants", len(jobs))
	c.Parallel(len(jobs), func(i int) {
		j := jobs[i]
		var out []byte
		var err error
		p, pst := Safely(func() {
			env, e := gx.EnvelopDoc(j.v.doc)
			err = e
			if e == nil {
				if err = env.Validate(); err == nil {
					out, err = json.Marshal(env.Document)
				}
			}
		})
		// root references again, this time decoded into a document object that was
		// already calculated once with its regime derived from the supplier (a reused
		// value, a service keeping one object per customer): the references of the
		// second document decide, not what the object held before
		if (j.v.kind == "regime" || j.v.kind == "addon" || j.v.kind == "tag" || j.v.kind == "addon+tag") && p == nil {
			if first, perr := jmut.Parse(j.v.doc); perr == nil {
				first.Del("$regime")
				first.Del("$addons")
				first.Del("$tags")
				var out2 []byte
				var err2 error
				p2, _ := Safely(func() {
					env, e := gx.EnvelopDoc(first.Bytes())
					if e != nil {
						err2 = fmt.Errorf("first document: %w", e)
						return
					}
					// onto the same payload value (schema.Object itself always allocates a fresh one)
					if e := json.Unmarshal(j.v.doc, env.Extract()); e != nil {
						err2 = e
						return
					}
					if err2 = env.Calculate(); err2 == nil {
						if err2 = env.Validate(); err2 == nil {
							out2, err2 = json.Marshal(env.Document)
						}
					}
				})
				if p2 == nil && (err2 == nil || !strings.HasPrefix(err2.Error(), "first document")) {
					c.R.Count("reused_object_decodes:"+j.v.kind, 1)
					if err2 == nil {
						if n2, e := jmut.Parse(out2); e == nil {
							if kind, where, det := w.resolve(n2); kind != "" {
								c.R.Fail(fmt.Sprintf("unresolved:reused-object:%s:%s", kind, where), fmt.Sprintf("%s with %s, decoded into an object that held the same document without root references: validates, but %s", j.it.Rel, j.v.desc, det), map[string]any{"file": j.it.Rel, "variant": j.v.desc, "document": json.RawMessage(j.v.doc)})
							}
						}
					}
				}
			}
		}
		id := ev.Hash(j.it.Rel, j.v.desc)
		if p != nil {
			c.R.Count("panics", 1)
			c.R.Set("panic_example", map[string]any{"file": j.it.Rel, "variant": j.v.desc, "panic": fmt.Sprint(p), "at": panicSite(pst)})
			c.R.Case(false, id)
			return
		}
		if err != nil {
			c.R.Count("rejected:"+j.v.kind, 1)
			c.R.Case(false, id)
			return
		}
		c.R.Count("accepted:"+j.v.kind, 1)
		c.R.Case(true, id)
		n, perr := jmut.Parse(out)
		if perr != nil {
			return
		}
		if kind, where, det := w.resolve(n); kind != "" {
			sig := fmt.Sprintf("unresolved:%s:%s", kind, where)
			if j.v.kind == "unmodified" {
				sig = "unresolved-in-shipped-example:" + kind + ":" + where
			}
			c.R.Fail(sig, fmt.Sprintf("%s with %s validates, but %s", j.it.Rel, j.v.desc, det), map[string]any{"file": j.it.Rel, "variant": j.v.desc, "document": json.RawMessage(j.v.doc)})
		}
		if i%4001 == 0 {
			c.R.Sample(map[string]any{"file": j.it.Rel, "variant": j.v.desc, "accepted": true})
		}
	})
	c.Require("rejected:graft", "accepted:tag", "accepted:addon+tag", "accepted:rate", "accepted:ext-value", "accepted:country-override")
}
