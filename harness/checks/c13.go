package checks

import (
	"encoding/json"
	"fmt"
	"math/rand/v2"
	"sort"
	"strings"

	"github.com/invopop/gobl/cbc"
	"github.com/invopop/gobl/l10n"
	"github.com/invopop/gobl/org"
	"github.com/invopop/gobl/tax"

	"verif/internal/ev"
	"verif/internal/gx"
	"verif/internal/taxid"
)

// C13 — tax identity codes are accepted exactly when the national check allows.
//
// Oracle: harness/internal/taxid, one independent implementation per national
// scheme written from the published algorithm descriptions.

func init() { Register("C13", runC13) }

func realValid(cc, code string) (ok bool, msg string, pan any) {
	pan, _ = Safely(func() {
		id := &tax.Identity{Country: l10n.TaxCountryCode(cc), Code: cbc.Code(code)}
		if err := id.Validate(); err != nil {
			msg = err.Error()
			return
		}
		ok = true
	})
	return
}

func realValidInParty(cc, code string) (ok bool, pan any) {
	pan, _ = Safely(func() {
		p := &org.Party{Name: "Test Party", TaxID: &tax.Identity{Country: l10n.TaxCountryCode(cc), Code: cbc.Code(code)}}
		ok = p.Validate() == nil
	})
	return
}

func realNormalize(cc, code string) (out string, pan any) {
	pan, _ = Safely(func() {
		id := &tax.Identity{Country: l10n.TaxCountryCode(cc), Code: cbc.Code(code)}
		id.Normalize()
		out = id.Code.String()
	})
	return
}

// oracleUnsure lists the sub-classes where the national format (not the check
// digit) is a matter of interpretation; the comparison is skipped there and
// the cases are counted (see DESIGN.md §7).
func oracleUnsure(cc, code string) string {
	switch cc {
	case "GB", "EL", "BR", "IT", "BE", "PT", "AT", "DE", "PL", "NL", "CO", "IN", "CH", "FR":
		if strings.Trim(code, "0") == "" || (cc == "CH" && strings.Trim(code, "E0") == "") || (cc == "AT" && strings.Trim(code, "U0") == "") || (cc == "NL" && strings.Trim(strings.Replace(code, "B", "0", 1), "0") == "") {
			return "all-zero"
		}
	}
	switch cc {
	case "BE":
		if len(code) == 9 && code[0] == '0' {
			return "be-number-range" // the old-style notation of a 00… number
		}
		if len(code) == 10 && (code[0] == '1' || code[1] == '0') {
			return "be-number-range" // numbers starting 1 (issued since 2023) or 00: range interpretation
		}
	case "EL":
		if len(code) == 8 {
			return "el-8-digits" // legacy numbers written without their leading zero
		}
	case "PL":
		if len(code) == 10 && (code[0] == '0' || (code[1] == '0' && code[2] == '0')) {
			return "pl-tax-office-prefix"
		}
	case "GB":
		// the historical number ranges in which each of the two mod-97 variants
		// applies differ between published descriptions; both agree for 7-digit
		// stems 1000001-9490000
		if len(code) == 9 || len(code) == 12 {
			stem := 0
			for _, ch := range code[:7] {
				if ch < '0' || ch > '9' {
					return ""
				}
				stem = stem*10 + int(ch-'0')
			}
			if stem < 1000001 || stem > 9490000 {
				return "gb-number-range"
			}
			// HMRC's procedure (subtract 97 until negative) only produces check digits
			// 01-97; 00, 98 and 99 satisfy the congruence but are never issued
			if cd := code[7:9]; cd == "00" || cd == "98" || cd == "99" {
				return "gb-check-digit-alias"
			}
		}
	case "CO":
		if len(code) < 9 || len(code) > 10 {
			return "co-length"
		}
	case "MX":
		if strings.ContainsRune(code, 'Ñ') {
			return "mx-enye"
		}
	case "FR":
		if taxid.FRNewStyle(code) {
			return "fr-new-style-key"
		}
	}
	return ""
}

type c13 struct {
	c     *Ctx
	sc    *taxid.Scheme
	local map[string]int64
}

func (k *c13) cnt(s string) { k.local[k.sc.Country+":"+s]++ }

func digitsOnly(s string) string {
	var b strings.Builder
	for _, r := range s {
		if r >= '0' && r <= '9' {
			b.WriteRune(r)
		}
	}
	return b.String()
}

// compare one normalised code.
func (k *c13) compare(code, origin string) {
	cc := k.sc.Country
	want := k.sc.Valid(code)
	got, msg, pan := realValid(cc, code)
	if pan != nil {
		k.cnt("panics")
		return
	}
	if why := oracleUnsure(cc, code); why != "" {
		k.cnt("skipped:" + why)
		return
	}
	if k.sc.HasFormat(code) {
		k.cnt("reached_checksum")
	}
	switch {
	case got && want:
		k.cnt("both_accept")
	case !got && !want:
		k.cnt("both_reject")
	case got && !want:
		cls := "bad-check-digit"
		if !k.sc.HasFormat(code) {
			cls = "bad-format"
		}
		k.c.R.Fail(fmt.Sprintf("%s:accepts-invalid:%s:%s", cc, cls, origin), fmt.Sprintf("%s code %q is accepted, the national rule rejects it (%s)", cc, code, cls), map[string]any{"country": cc, "code": code, "origin": origin})
	default:
		k.c.R.Fail(fmt.Sprintf("%s:rejects-valid:%s", cc, origin), fmt.Sprintf("%s code %q satisfies the national rule but is rejected: %s", cc, code, msg), map[string]any{"country": cc, "code": code, "origin": origin, "error": msg})
	}
	// the verdict on the code as entered (normalised, then validated) must be the
	// oracle's verdict on what normalisation produced
	if pg, n, pp := pipelineValid(cc, code); pp == nil && n != code && n != "" && oracleUnsure(cc, n) == "" {
		// (a candidate that is nothing but the country prefix normalises to the empty
		// code, which means "no code" and is not judged)
		k.cnt("normalisation_rewrote_candidate")
		if pg != k.sc.Valid(n) {
			k.c.R.Fail(fmt.Sprintf("%s:pipeline-verdict:%s", cc, origin), fmt.Sprintf("%s code %q normalises to %q, which the library judges valid=%v and the national rule valid=%v", cc, code, n, pg, k.sc.Valid(n)), map[string]any{"country": cc, "code": code, "normalized": n})
		}
	}
	// same verdict when the identity sits inside a party
	if pg, pp := realValidInParty(cc, code); pp == nil && pg != got {
		k.c.R.Fail(cc+":party-verdict-differs", fmt.Sprintf("%s code %q: identity valid=%v but party valid=%v", cc, code, got, pg), map[string]any{"country": cc, "code": code})
	}
}

var prefixAlts = map[string][]string{"EL": {"EL", "GR"}, "GB": {"GB", "XI"}}

func (k *c13) variants(code string, rng *rand.Rand) {
	cc := k.sc.Country
	if oracleUnsure(cc, code) != "" {
		return
	}
	base, pan := realNormalize(cc, code)
	if pan != nil {
		k.cnt("panics")
		return
	}
	if base != code {
		// a valid code in normalised form must be a fixpoint of normalisation
		k.c.R.Fail(cc+":normalize:not-fixpoint", fmt.Sprintf("%s valid code %q normalises to %q", cc, code, base), map[string]any{"country": cc, "code": code, "normalized": base})
		return
	}
	seps := []string{" ", ".", "-", "/", " - ", ". "}
	mk := func() string {
		var b strings.Builder
		sep := seps[rng.IntN(len(seps))]
		for i, ch := range code {
			if i > 0 && rng.IntN(3) == 0 {
				b.WriteString(sep)
			}
			b.WriteRune(ch)
		}
		s := b.String()
		if rng.IntN(2) == 0 {
			s = strings.ToLower(s)
		}
		pfx := rng.IntN(4)
		if k.sc.FormatOnly && pfx == 0 {
			pfx = 2 // RFC-like codes may themselves start with the country letters
		}
		switch pfx {
		case 0:
			pf := cc
			if alts := prefixAlts[cc]; len(alts) > 0 && cc == "EL" {
				pf = alts[rng.IntN(len(alts))]
			}
			if rng.IntN(2) == 0 {
				pf = strings.ToLower(pf)
			}
			s = pf + seps[rng.IntN(len(seps))][:1] + s
			s = strings.Replace(s, pf+" ", pf, rng.IntN(2))
		case 1:
			s = " " + s + " "
		}
		// national decorations people write after the number
		if cc == "CH" && rng.IntN(2) == 0 {
			s = strings.TrimSpace(s) + []string{" MWST", " MwSt", " mwst", " TVA", " tva", " IVA", " Iva", " MWST.", " (MWST)", "-TVA", " IVA "}[rng.IntN(11)]
		}
		return s
	}
	for i := 0; i < 4; i++ {
		v := mk()
		n1, pan := realNormalize(cc, v)
		if pan != nil {
			k.cnt("panics")
			continue
		}
		k.cnt("variants_normalised")
		n2, _ := realNormalize(cc, n1)
		if n2 != n1 {
			k.c.R.Fail(cc+":normalize:not-idempotent", fmt.Sprintf("%s %q → %q → %q", cc, v, n1, n2), map[string]any{"country": cc, "input": v})
		}
		if n1 != code {
			cls := "formatted-variant"
			if digitsOnly(n1) != digitsOnly(code) {
				cls = "digits-altered"
			}
			k.c.R.Fail(cc+":normalize:"+cls, fmt.Sprintf("%s formatted variant %q of valid code %q normalises to %q", cc, v, code, n1), map[string]any{"country": cc, "input": v, "code": code, "normalized": n1})
		}
	}
}

// hosted puts a valid code on the customer of invoices issued under other
// regimes: the document's regime must leave a foreign identity to the rules of
// its own country (same country, same code after calculation, still valid).
func (k *c13) hosted(code string, rng *rand.Rand) {
	cc := k.sc.Country
	if oracleUnsure(cc, code) != "" {
		return
	}
	w := getWorld()
	var all []string
	for r := range w.defs.Regimes {
		all = append(all, r)
	}
	sort.Strings(all)
	hosts := []string{"FR", "EL", "IN", cc, all[rng.IntN(len(all))], all[rng.IntN(len(all))]}
	for hi, host := range hosts {
		reg := w.defs.Regimes[host]
		if reg == nil {
			continue
		}
		entered := code
		if hi%2 == 1 {
			entered = strings.ToLower(code[:len(code)/2] + "." + code[len(code)/2:])
		}
		inv := map[string]any{
			"$schema": "https://gobl.org/draft-0/bill/invoice", "$regime": host, "code": "H-1", "issue_date": "2024-06-13", "currency": reg.Currency,
			"supplier": map[string]any{"name": "Supplier", "tax_id": map[string]any{"country": host}},
			"customer": map[string]any{"name": "Customer", "tax_id": map[string]any{"country": cc, "code": entered}},
			"lines":    []any{map[string]any{"quantity": "1", "item": map[string]any{"name": "thing", "price": "100.00"}}},
		}
		docJSON, _ := json.Marshal(inv)
		var out []byte
		var cerr error
		if pan, _ := Safely(func() {
			env, err := gx.EnvelopDoc(docJSON)
			if cerr = err; err == nil {
				out, cerr = json.Marshal(env)
			}
		}); pan != nil {
			k.cnt("panics")
			continue
		}
		if cerr != nil {
			k.cnt("hosted_calculation_refused")
			continue
		}
		var e struct {
			Doc struct {
				Customer struct {
					TaxID struct {
						Country string `json:"country"`
						Code    string `json:"code"`
					} `json:"tax_id"`
				} `json:"customer"`
			} `json:"doc"`
		}
		if json.Unmarshal(out, &e) != nil {
			continue
		}
		k.cnt("hosted_identities")
		if host != cc {
			k.cnt("hosted_identities_foreign")
		}
		got := e.Doc.Customer.TaxID
		if got.Country != cc || got.Code != code {
			cls := "rewritten"
			if digitsOnly(got.Code) != digitsOnly(code) {
				cls = "digits-altered"
			}
			k.c.R.Fail(fmt.Sprintf("%s:hosted:%s:under-%s", cc, cls, hostClass(host, cc)), fmt.Sprintf("%s identity %q entered as %q on the customer of a %s invoice comes out as %s %q", cc, code, entered, host, got.Country, got.Code), map[string]any{"country": cc, "code": code, "host": host, "doc": json.RawMessage(docJSON)})
			continue
		}
		if ok, _, _ := realValid(got.Country, got.Code); !ok {
			k.c.R.Fail(fmt.Sprintf("%s:hosted:invalid-after:under-%s", cc, hostClass(host, cc)), fmt.Sprintf("%s identity %q on a %s invoice is rejected after calculation", cc, code, host), map[string]any{"country": cc, "code": code, "host": host})
		}
	}
}

func hostClass(host, cc string) string {
	if host == cc {
		return "own-regime"
	}
	return host
}

// pipeline: the verdict on a code as entered, i.e. normalised and then validated.
func pipelineValid(cc, code string) (ok bool, normalised string, pan any) {
	n, p := realNormalize(cc, code)
	if p != nil {
		return false, "", p
	}
	got, _, p2 := realValid(cc, n)
	return got, n, p2
}

// identityAsEntered normalises and validates one identity value (the country may
// be rewritten by normalisation as well, e.g. GR to EL).
func identityAsEntered(cc, code string) (ok bool, after string, pan any) {
	pan, _ = Safely(func() {
		id := &tax.Identity{Country: l10n.TaxCountryCode(cc), Code: cbc.Code(code)}
		id.Normalize()
		after = id.Country.String() + " " + id.Code.String()
		ok = id.Validate() == nil
	})
	return
}

// frShortForms: French numbers may be entered as the bare 9-digit SIREN, which
// normalisation completes with the VAT key when its own (Luhn) check digit
// agrees; a SIREN with a wrong check digit must not become an accepted code.
func (k *c13) frShortForms(rng *rand.Rand, n int) {
	judge := func(siren, origin string) {
		want := taxid.LuhnOK(siren)
		got, norm, pan := pipelineValid("FR", siren)
		if pan != nil {
			k.cnt("panics")
			return
		}
		k.cnt("fr_siren_pipeline_verdicts")
		switch {
		case got && !want:
			k.c.R.Fail("FR:accepts-invalid:siren-short-form:"+origin, fmt.Sprintf("FR SIREN %q has a wrong check digit but is accepted once normalised (to %q)", siren, norm), map[string]any{"country": "FR", "code": siren, "normalized": norm, "origin": origin})
		case !got && want:
			k.c.R.Fail("FR:rejects-valid:siren-short-form:"+origin, fmt.Sprintf("FR SIREN %q satisfies its check digit but is rejected after normalisation (to %q)", siren, norm), map[string]any{"country": "FR", "code": siren, "normalized": norm, "origin": origin})
		case got && digitsOnly(norm)[len(digitsOnly(norm))-9:] != siren:
			k.c.R.Fail("FR:normalize:digits-altered", fmt.Sprintf("FR SIREN %q normalises to %q", siren, norm), map[string]any{"country": "FR", "code": siren, "normalized": norm})
		}
		k.c.R.Case(true, ev.Hash("FR-siren", siren))
	}
	for i := 0; i < n; i++ {
		var d []byte
		for j := 0; j < 8; j++ {
			d = append(d, byte('0'+rng.IntN(10)))
		}
		siren := ""
		for c := byte('0'); c <= '9'; c++ {
			if taxid.LuhnOK(string(d) + string(c)) {
				siren = string(d) + string(c)
			}
		}
		if siren == "" || strings.Trim(siren, "0") == "" {
			continue
		}
		judge(siren, "generated-valid")
		for _, e := range taxid.SingleDigitEdits(siren) {
			judge(e, "single-digit-edit")
		}
		for _, e := range taxid.AdjacentTranspositions(siren) {
			judge(e, "transposition")
		}
		// formatted like people write it
		f := "FR " + siren[:3] + " " + siren[3:6] + " " + siren[6:]
		if got, norm, _ := pipelineValid("FR", f); !got {
			k.c.R.Fail("FR:rejects-valid:siren-short-form:formatted", fmt.Sprintf("FR SIREN %q (valid) is rejected after normalisation (to %q)", f, norm), map[string]any{"country": "FR", "code": f})
		}
	}
}

// beOldStyle writes one in three 0-prefixed Belgian numbers in the pre-2005
// nine-digit notation (the same number without its leading zero).
func beOldStyle(cc, code string, rng *rand.Rand) string {
	if cc == "BE" && len(code) == 10 && code[0] == '0' && rng.IntN(3) == 0 {
		return code[1:]
	}
	return code
}

func runC13(c *Ctx) {
	c.R.Rule("per regime with a rule: random strings of the national alphabet and length, valid codes built by the oracle (random body + computed control), all single-digit substitutions and adjacent transpositions of valid codes, formatted variants (separators, lower case, country prefix) through Normalize; non-trivial = the code has the national format so the check digit decides; distinct by (country, code)")
	c.R.Assume("national algorithms as implemented in harness/internal/taxid from the published descriptions (each Scheme.Note states the rule); ES organisation control accepted as digit or letter; FR new-style alphanumeric keys, all-zero codes, BE numbers 00… and 1… (range interpretation; 9-digit old-style numbers are read as the same number with a leading 0), CO lengths outside 9-10 and MX Ñ are skipped as format interpretation (counted)")
	schemes := taxid.Schemes()
	nRandom := c.N(20000, 1000000)
	nValid := c.N(2000, 100000)
	const chunks = 8
	c.Parallel(len(schemes)*chunks, func(i int) {
		sc := &schemes[i/chunks]
		part := i % chunks
		k := &c13{c: c, sc: sc, local: map[string]int64{}}
		rng := c.Rand(uint64(i))
		cc := sc.Country
		if tax.RegimeDefFor(l10n.Code(cc)) == nil {
			if part == 0 {
				c.R.Fail(cc+":no-regime", "no regime registered for "+cc, cc)
			}
			return
		}
		for n := 0; n < nRandom/chunks; n++ {
			code := sc.GenRandom(rng)
			code = beOldStyle(cc, code, rng)
			if n%8 == 0 {
				// wrong length / alphabet: drop or add a character, or plain garbage
				switch rng.IntN(3) {
				case 0:
					if len(code) > 1 {
						code = code[:len(code)-1]
					}
				case 1:
					code += string("0123456789ABCXYZ"[rng.IntN(16)])
				default:
					b := make([]byte, 1+rng.IntN(16))
					for i := range b {
						b[i] = "0123456789ABCDEFGHJKLMNPQRSTUVWXYZ"[rng.IntN(34)]
					}
					code = string(b)
				}
			}
			k.compare(code, "random")
			c.R.Case(sc.HasFormat(code), ev.Hash(cc, code))
		}
		for n := 0; n < nValid/chunks; n++ {
			code := beOldStyle(cc, sc.GenValid(rng), rng)
			k.compare(code, "generated-valid")
			c.R.Case(true, ev.Hash(cc, code))
			if sc.FormatOnly {
				k.variants(code, rng)
				continue
			}
			for _, e := range taxid.SingleDigitEdits(code) {
				k.compare(e, "single-digit-edit")
				if !sc.Valid(e) {
					k.cnt("single_digit_edits_oracle_rejects")
				} else {
					k.cnt("single_digit_edits_oracle_accepts")
				}
			}
			for _, e := range taxid.AdjacentTranspositions(code) {
				k.compare(e, "transposition")
			}
			k.variants(code, rng)
			if n%4 == 0 {
				k.hosted(code, rng)
			}
			if n == 0 && part == 0 {
				c.R.Sample(map[string]any{"country": cc, "valid_code": code, "rule": sc.Note})
			}
		}
		if cc == "FR" {
			k.frShortForms(rng, nValid/chunks/4+1)
		}
		// the regime's alternative country codes (XI and XU for GB, GR for EL) name
		// the same national scheme: same verdict as under the main code
		if reg := getWorld().defs.Regimes[cc]; reg != nil && part == 0 {
			for _, alt := range reg.AltCodes {
				for n := 0; n < 200; n++ {
					code := sc.GenValid(rng)
					cands := append([]string{code}, taxid.SingleDigitEdits(code)...)
					cands = append(cands, sc.GenRandom(rng), "123456", "ABCDEFGHI")
					for _, cd := range cands {
						if oracleUnsure(cc, cd) != "" {
							continue
						}
						// as entered: normalised first (GR is rewritten to EL there), then validated
						g1, _, p1 := identityAsEntered(cc, cd)
						g2, m2, p2 := identityAsEntered(alt, cd)
						if p1 != nil || p2 != nil {
							k.cnt("panics")
							continue
						}
						k.cnt("alias_country_verdicts")
						if g1 != g2 {
							k.c.R.Fail(fmt.Sprintf("%s:alias-country:%s", cc, alt), fmt.Sprintf("code %q is valid=%v under country %s but valid=%v under its alternative code %s (normalised to %q)", cd, g1, cc, g2, alt, m2), map[string]any{"country": cc, "alias": alt, "code": cd})
						}
					}
				}
			}
		}
		for a, b := range k.local {
			c.R.Count(a, b)
		}
	})
	c.Require("ES:hosted_identities_foreign", "PT:hosted_identities_foreign", "FR:fr_siren_pipeline_verdicts", "ES:both_accept", "BE:both_accept", "GB:both_accept", "NL:both_reject")
}
