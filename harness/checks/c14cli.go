package checks

import (
	"bytes"
	"encoding/base64"
	"encoding/json"
	"fmt"
	"os"
	"os/exec"
	"path/filepath"
	"strings"
	"time"
	"verif/internal/gx"

	"verif/internal/corpus"
	"verif/internal/ev"
	"verif/internal/jmut"
	"verif/internal/srv"
)

// c14cli: a seeded sample of mutants goes through the CLI commands as
// processes and through /build, /verify and /bulk of a running server.
// c14coldStarts: freshly started servers each receive one simultaneous burst of
// valid documents of every regime and addon, so that whatever a process sets up
// on first use is set up under contention; the process has to survive and
// answer every request.
func c14coldStarts(c *Ctx, gbin string, items []corpus.Item) {
	starts := c.N(40, 400)
	for k := 0; k < starts; k++ {
		server, err := srv.Start(gbin)
		if err != nil {
			c.R.Count("cold_start_failed_to_start", 1)
			continue
		}
		// one bulk stream: the server runs every request of it in its own goroutine
		var lines bytes.Buffer
		n := 0
		for i := range items {
			it := items[(i+k*7)%len(items)]
			doc, err := gx.DocJSON(it.Data)
			if err != nil {
				continue
			}
			l, _ := json.Marshal(map[string]any{"action": "build", "req_id": fmt.Sprint(i), "payload": map[string]any{"data": base64.StdEncoding.EncodeToString(doc)}})
			lines.Write(l)
			lines.WriteByte('\n')
			n++
		}
		got := 0
		if resp, herr := server.PostStream("/bulk", &lines); herr != nil {
			c.R.Count("cold_start_transport_errors", 1)
		} else {
			var buf bytes.Buffer
			_, _ = buf.ReadFrom(resp.Body)
			resp.Body.Close()
			for _, ln := range strings.Split(strings.TrimSpace(buf.String()), "\n") {
				if json.Valid([]byte(ln)) {
					got++
				}
			}
		}
		c.R.Count("cold_start_bursts", 1)
		c.R.Count("cold_start_requests_answered", int64(got))
		crashed, what := server.Crashed()
		alive := server.Alive()
		server.Kill()
		if crashed || !alive {
			c.R.Fail("panic:cold-start:"+panicSite(what), fmt.Sprintf("a freshly started server died under a simultaneous burst of %d valid documents (start %d): %s", n, k, trunc(what)), map[string]any{"start": k, "log": what})
			return
		}
		if got != n+1 {
			c.R.Fail("bulk:responses-missing:cold-start", fmt.Sprintf("a bulk stream of %d build requests to a fresh server produced %d well-formed lines", n, got), map[string]any{"start": k})
			return
		}
	}
}

func c14cli(c *Ctx, items []corpus.Item, tmp string) {
	gbin := filepath.Join(ev.Root(), "bin", "gobl")
	if _, err := os.Stat(gbin); err != nil {
		c.R.Inconclusive("no-cli-binary")
		return
	}
	c14coldStarts(c, gbin, items)
	server, err := srv.Start(gbin)
	if err != nil {
		c.R.Inconclusive("server-start:" + err.Error())
		return
	}
	defer server.Stop()
	c14flags(c, gbin, server, items, tmp)
	pub, _ := json.Marshal(c14key.Public())
	n := c.N(1500, 40000)
	rng := newRng(c.Seed, 4242)
	type sample struct {
		name string
		data []byte
	}
	var samples []sample
	for len(samples) < n {
		it := items[rng.IntN(len(items))]
		root, err := jmut.Parse(it.Data)
		if err != nil {
			continue
		}
		total := countPositions(root)
		pos := rng.IntN(total)
		var muts []sample
		enumMutants(root, pos, pos+1, func(name string, nd *jmut.Node) { muts = append(muts, sample{it.Rel + ":" + name, nd.Bytes()}) })
		if len(muts) == 0 {
			continue
		}
		samples = append(samples, muts[rng.IntN(len(muts))])
	}
	// YAML-specific inputs for the CLI (it reads YAML as well as JSON)
	yamls := map[string]string{
		"anchors-aliases": "$schema: \"https://gobl.org/draft-0/bill/invoice\"\nsupplier: &s\n  name: A\n  tax_id: {country: ES, code: B98602642}\ncustomer: *s\nlines:\n  - &l {quantity: \"1\", item: {name: x, price: \"10.00\"}}\n  - *l\n",
		"merge-keys":      "base: &b {name: A}\n$schema: \"https://gobl.org/draft-0/org/party\"\n<<: *b\n",
		"alias-bomb":      "a: &a [x,x,x,x,x,x,x,x]\nb: &b [*a,*a,*a,*a,*a,*a,*a,*a]\nc: &c [*b,*b,*b,*b,*b,*b,*b,*b]\nd: &d [*c,*c,*c,*c,*c,*c,*c,*c]\ne: &e [*d,*d,*d,*d,*d,*d,*d,*d]\n$schema: \"https://gobl.org/draft-0/org/party\"\nname: *e\n",
		"tabs":            "$schema:\t\"https://gobl.org/draft-0/org/party\"\nname:\tX\n",
		"non-string-keys": "$schema: \"https://gobl.org/draft-0/org/party\"\n1: a\ntrue: b\n[1,2]: c\nname: X\n",
		"self-reference":  "&a [*a]\n",
		"multi-doc":       "$schema: \"https://gobl.org/draft-0/org/party\"\nname: X\n---\nname: Y\n",
		"binary-tag":      "$schema: \"https://gobl.org/draft-0/org/party\"\nname: !!binary aGVsbG8=\n",
		"float-specials":  "$schema: \"https://gobl.org/draft-0/bill/invoice\"\nlines:\n  - quantity: .inf\n    item: {name: x, price: .nan}\n",
		"empty-yaml":      "# nothing\n",
		"unterminated":    "$schema: \"https://gobl.org/draft-0/org/party\nname: [a, b\n",
	}
	for name, y := range yamls {
		for _, cmdName := range []string{"build", "validate"} {
			file := filepath.Join(tmp, "y-"+name+".yaml")
			_ = os.WriteFile(file, []byte(y), 0o644)
			cmd := exec.Command(gbin, cmdName, file)
			var so, se bytes.Buffer
			cmd.Stdout, cmd.Stderr = &so, &se
			err := runWithTimeout(cmd, 60*time.Second)
			c.R.Count("cli:yaml", 1)
			out := se.String() + so.String()
			wit := map[string]any{"command": cmdName, "yaml": y}
			if err != nil {
				switch {
				case strings.Contains(out, "panic:") || strings.Contains(out, "fatal error:") || strings.Contains(out, "goroutine "):
					c.R.Fail("panic:"+panicSite(out), fmt.Sprintf("`gobl %s` crashed on YAML input %s: %s", cmdName, name, trunc(out)), wit)
				case err.Error() == "timeout":
					c.R.Fail("hang:cli:yaml:"+name, "gobl "+cmdName+" did not finish within 60 s on YAML input "+name, wit)
				}
			}
			os.Remove(file)
		}
	}
	cmds := [][]string{{"build"}, {"validate"}, {"correct", "--credit"}, {"replicate"}, {"sign"}, {"verify"}}
	c.Parallel(len(samples), func(i int) {
		s := samples[i]
		file := filepath.Join(tmp, fmt.Sprintf("cli-%d.json", i))
		_ = os.WriteFile(file, s.data, 0o644)
		defer os.Remove(file)
		args := append([]string{}, cmds[i%len(cmds)]...)
		switch args[0] {
		case "sign":
			args = append(args, "-k", filepath.Join(server.Dir, "key.jwk"))
		case "verify":
			pf := filepath.Join(tmp, fmt.Sprintf("pub-%d.jwk", i))
			_ = os.WriteFile(pf, pub, 0o644)
			defer os.Remove(pf)
			args = append(args, "-k", pf)
		}
		args = append(args, file)
		cmd := exec.Command(gbin, args...)
		var so, se bytes.Buffer
		cmd.Stdout, cmd.Stderr = &so, &se
		err := runWithTimeout(cmd, 60*time.Second)
		c.R.Count("cli:"+args[0], 1)
		wit := map[string]any{"command": args[0], "mutant": s.name, "input": string(s.data), "stderr": trunc(se.String())}
		if err != nil {
			out := se.String() + so.String()
			switch {
			case strings.Contains(out, "panic:") || strings.Contains(out, "fatal error:") || strings.Contains(out, "goroutine "):
				site := "unknown-site"
				if strings.Contains(out, "panic") {
					site = panicSite(out)
				}
				c.R.Fail("panic:"+site, fmt.Sprintf("`gobl %s` crashed on %s: %s", args[0], s.name, trunc(out)), wit)
			case err.Error() == "timeout":
				c.R.Fail("hang:cli:"+args[0], "gobl "+args[0]+" did not finish within 60 s on "+s.name, wit)
			default:
				if ee, ok := err.(*exec.ExitError); ok && ee.ExitCode() != 1 {
					c.R.Fail(fmt.Sprintf("cli-exit:%s:%d", args[0], ee.ExitCode()), fmt.Sprintf("`gobl %s` exit code %d: %s", args[0], ee.ExitCode(), trunc(out)), wit)
				}
				// a failure must be reported as a JSON error object
				var eo map[string]any
				line := strings.TrimSpace(se.String())
				if line == "" {
					line = strings.TrimSpace(so.String())
				}
				if json.Unmarshal([]byte(line), &eo) != nil {
					c.R.Count("cli_error_not_json(observed)", 1)
				} else {
					c.R.Count("cli_error_json", 1)
				}
			}
		}
		// server paths with the same mutant
		b64 := base64.StdEncoding.EncodeToString(s.data)
		switch i % 3 {
		case 0:
			body, _ := json.Marshal(map[string]any{"data": s.data})
			st, resp, herr := server.Post("/build", body, "application/json")
			c.R.Count("http:/build", 1)
			if herr != nil {
				c.R.Count("http_transport_errors", 1)
			} else if c.R.Count(fmt.Sprintf("http:/build:status-%d", st), 1); !json.Valid(resp) {
				// the server answers every failed build with its generic 500 JSON body: an error, not a crash
				c.R.Fail("http:/build:body-not-json", trunc(string(resp)), wit)
			}
		case 1:
			body, _ := json.Marshal(map[string]any{"data": s.data, "publickey": json.RawMessage(pub)})
			st, resp, herr := server.Post("/verify", body, "application/json")
			c.R.Count("http:/verify", 1)
			if herr != nil {
				c.R.Count("http_transport_errors", 1)
			} else if c.R.Count(fmt.Sprintf("http:/verify:status-%d", st), 1); !json.Valid(resp) {
				c.R.Fail("http:/verify:body-not-json", trunc(string(resp)), wit)
			}
		default:
			var lines bytes.Buffer
			for k, act := range []string{"validate", "build", "correct", "replicate", "verify", "sign"} {
				payload := map[string]any{"data": b64}
				if act == "correct" {
					payload["options"] = base64.StdEncoding.EncodeToString([]byte(`{"type":"credit-note"}`))
				}
				if act == "verify" {
					payload["publickey"] = json.RawMessage(pub)
				}
				l, _ := json.Marshal(map[string]any{"action": act, "req_id": fmt.Sprintf("%d-%d", i, k), "payload": payload})
				lines.Write(l)
				lines.WriteByte('\n')
			}
			resp, herr := server.PostStream("/bulk", &lines)
			c.R.Count("http:/bulk", 1)
			if herr != nil {
				c.R.Count("http_transport_errors", 1)
			} else {
				var buf bytes.Buffer
				_, _ = buf.ReadFrom(resp.Body)
				resp.Body.Close()
				got := 0
				for _, ln := range strings.Split(strings.TrimSpace(buf.String()), "\n") {
					if json.Valid([]byte(ln)) {
						got++
					}
				}
				if got != 7 {
					c.R.Fail("bulk:responses-missing", fmt.Sprintf("bulk stream with 6 requests on %s produced %d well-formed lines", s.name, got), wit)
				}
			}
		}
		if i%50 == 0 && !server.Alive() {
			crashed, what := server.Crashed()
			c.R.Fail("server-died", fmt.Sprintf("server no longer answers (crashed=%v): %s", crashed, what), wit)
		}
	})
	if crashed, what := server.Crashed(); crashed {
		site := panicSite(what)
		c.R.Fail("panic:"+site, "server log shows a crash: "+trunc(what), map[string]any{"log": what})
	}
	if !server.Alive() {
		c.R.Fail("server-died", "server is not alive at the end of the run", nil)
	}
}
