package checks

import (
	"encoding/json"
	"fmt"
	"sort"
	"strings"
	"time"

	"github.com/invopop/gobl/cal"
	"github.com/invopop/gobl/cbc"
	"github.com/invopop/gobl/l10n"
	"github.com/invopop/gobl/tax"

	"verif/internal/dec"
	"verif/internal/defs"
	"verif/internal/ev"
	"verif/internal/gx"
)

// C12 — the tax rate applied on a date is the one in force on that date.
//
// Oracle: the published tables data/regimes/*.json, read by internal/defs,
// with the selection rule of the statement applied directly. Both real paths
// are exercised for every point: tax.RateDef.Value and a whole invoice dated D
// calculated through gobl.Envelop.

func init() { Register("C12", runC12) }

func shiftDate(d string, days int) string {
	t, err := time.Parse("2006-01-02", d)
	if err != nil {
		return d
	}
	return t.AddDate(0, 0, days).Format("2006-01-02")
}

func calDate(d string) cal.Date {
	t, _ := time.Parse("2006-01-02", d)
	return cal.MakeDate(t.Year(), t.Month(), t.Day())
}

func pctEq(a, b string) bool {
	if a == "" || b == "" {
		return a == b
	}
	x, ok1 := dec.Parse(a)
	y, ok2 := dec.Parse(b)
	return ok1 && ok2 && x.Cmp(y) == 0
}

type c12point struct {
	Regime, Cat, Rate, Date string
	Ext                     map[string]string
	ValueDateMode           string // "issue" | "value-before-issue" | "value-after-issue"
}

func runC12(c *Ctx) {
	c.R.Rule("exhaustive: every published regime × category × rate key × {start-1,start,start+1 of every dated value, day before the earliest value, fixed arbitrary dates, seeded random dates} × extension variants named by the table × {issue date only, value date before/after issue date}; two real paths per point (RateDef.Value, whole invoice). non-trivial = the rate has dated or filtered values; distinct by point")
	c.R.Assume("oracle: data/regimes/*.json as published (cross-checked against the in-code tables by C19); selection = latest start <= date among applicable values, absent start = always, ties to the filtered value")
	all, errs := defs.Load()
	for _, e := range errs {
		c.R.Fail("published-file-unreadable", e, e)
	}
	rng := c.Rand(1)
	type job struct {
		reg  *defs.Regime
		cat  *defs.Category
		rate *defs.Rate
	}
	var jobs []job
	for _, reg := range all.RegimeList {
		if all.Regimes[reg.Country] != reg {
			c.R.Count("regime_files_shadowed", 1) // gr.json vs el.json, see C19
			continue
		}
		for _, cat := range reg.Categories {
			// table order: strictly descending start dates within each filter group, undated last
			for _, rate := range cat.Rates {
				groups := map[string][]*defs.RateValue{}
				for _, v := range rate.Values {
					k := J(v.Ext) + J(v.Tags)
					groups[k] = append(groups[k], v)
				}
				for gk, g := range groups {
					for i := 1; i < len(g); i++ {
						prev, cur := g[i-1].Since, g[i].Since
						if prev == "" || (cur != "" && cur >= prev) {
							c.R.Fail(fmt.Sprintf("order:%s:%s:%s", reg.Country, cat.Code, rate.Key), fmt.Sprintf("values of filter group %s not in strictly descending start order: %q then %q", gk, prev, cur), map[string]any{"regime": reg.Country, "cat": cat.Code, "rate": rate.Key})
						}
					}
				}
				c.R.Count("tables_order_checked", 1)
				jobs = append(jobs, job{reg, cat, rate})
			}
		}
	}
	// registered regimes must validate (includes the library's own order rule)
	for _, rd := range tax.AllRegimeDefs() {
		if err := rd.Validate(); err != nil {
			c.R.Fail("invalid-regime-def:"+rd.Country.String(), err.Error(), rd.Country.String())
		}
		c.R.Count("regime_defs_validated", 1)
	}

	var points []c12point
	for _, j := range jobs {
		dates := map[string]bool{"2000-02-29": true, "1990-01-01": true, "2024-12-31": true, "2025-01-01": true, "2030-06-15": true, "1800-01-01": true}
		earliest := ""
		extVariants := []map[string]string{nil}
		seenExt := map[string]bool{"null": true}
		for _, v := range j.rate.Values {
			if v.Since != "" {
				dates[shiftDate(v.Since, -1)] = true
				dates[v.Since] = true
				dates[shiftDate(v.Since, 1)] = true
				if earliest == "" || v.Since < earliest {
					earliest = v.Since
				}
			}
			if len(v.Ext) > 0 && !seenExt[J(v.Ext)] {
				seenExt[J(v.Ext)] = true
				extVariants = append(extVariants, v.Ext)
			}
		}
		if earliest != "" {
			dates[shiftDate(earliest, -1)] = true
			dates[shiftDate(earliest, -366)] = true
		}
		for i := 0; i < 5; i++ {
			dates[fmt.Sprintf("%04d-%02d-%02d", 1985+rng.IntN(50), 1+rng.IntN(12), 1+rng.IntN(28))] = true
		}
		// an extension value that no filter names
		for k := range seenExt {
			if k != "null" {
				var m map[string]string
				_ = json.Unmarshal([]byte(k), &m)
				for ek := range m {
					extVariants = append(extVariants, map[string]string{ek: "ZZ-NONE"})
					break
				}
				break
			}
		}
		var dl []string
		for d := range dates {
			dl = append(dl, d)
		}
		sort.Strings(dl)
		for _, d := range dl {
			for _, e := range extVariants {
				for _, m := range []string{"issue", "value-before-issue", "value-after-issue", "issue,op-before", "issue,op-after", "value-before-issue,op-between", "value-only"} {
					points = append(points, c12point{j.reg.Country, j.cat.Code, j.rate.Key, d, e, m})
				}
			}
		}
	}
	c.R.Set("points", len(points))
	c.R.Set("rates_enumerated", len(jobs))

	c.Parallel(len(points), func(i int) {
		p := points[i]
		reg := all.Regimes[p.Regime]
		cat := reg.CategoryDef(p.Cat)
		rate := cat.RateDef(p.Rate)
		nontriv := false
		for _, v := range rate.Values {
			if v.Since != "" || v.Filtered() {
				nontriv = true
			}
		}
		// effective extensions: the rate's own extensions are copied to the combo first
		ext := map[string]string{}
		for k, v := range p.Ext {
			ext[k] = v
		}
		for k, v := range rate.Ext {
			ext[k] = v
		}
		want, amb := rate.InForce(p.Date, nil, ext)
		if amb {
			c.R.Fail(fmt.Sprintf("ambiguous:%s:%s:%s", p.Regime, p.Cat, p.Rate), "two applicable values share the winning start date "+p.Date, p)
		}
		wantPct, wantSur, wantErr := "", "", false
		switch {
		case rate.Exempt:
		case len(rate.Values) == 0:
		case want == nil:
			wantErr = true
		default:
			wantPct, wantSur = want.Percent, want.Surcharge
		}
		cls := boundaryClass(rate, p.Date)

		// path 1: RateDef.Value through the public tax API
		rd := tax.RegimeDefFor(l10n.Code(p.Regime))
		if rd == nil {
			c.R.Fail("missing-regime:"+p.Regime, "published regime not registered", p)
			return
		}
		if cd := rd.CategoryDef(cbc.Code(p.Cat)); cd == nil {
			c.R.Fail("missing-category:"+p.Regime+":"+p.Cat, "published category not registered", p)
		} else if rdef := cd.RateDef(cbc.Key(p.Rate)); rdef == nil {
			c.R.Fail("missing-rate:"+p.Regime+":"+p.Cat+":"+p.Rate, "published rate not registered", p)
		} else if !rate.Exempt && len(rate.Values) > 0 {
			te := tax.Extensions{}
			for k, v := range ext {
				te[cbc.Key(k)] = cbc.Code(v)
			}
			got := rdef.Value(calDate(p.Date), nil, te)
			gp, gs := "", ""
			if got != nil {
				gp = got.Percent.String()
				if got.Surcharge != nil {
					gs = got.Surcharge.String()
				}
			}
			if (got == nil) != wantErr || !pctEq(gp, wantPct) || !pctEq(gs, wantSur) {
				c.R.Fail(fmt.Sprintf("%s:%s:%s:%s:value", cls, p.Regime, p.Cat, p.Rate),
					fmt.Sprintf("RateDef.Value(%s %s %s, date %s, ext %v) = %q/%q, table value in force is %q/%q (none=%v)", p.Regime, p.Cat, p.Rate, p.Date, ext, gp, gs, wantPct, wantSur, wantErr), p)
			}
			c.R.Count("path_RateDef.Value", 1)
		}

		// path 2: a whole invoice
		// the operation date never decides the rate: the value date does, else the issue date
		issue, value, op := p.Date, "", ""
		switch p.ValueDateMode {
		case "value-before-issue":
			issue, value = shiftDate(p.Date, 400), p.Date
		case "value-after-issue":
			issue, value = shiftDate(p.Date, -400), p.Date
		case "issue,op-before":
			op = shiftDate(p.Date, -400)
		case "issue,op-after":
			op = shiftDate(p.Date, 400)
		case "value-before-issue,op-between":
			issue, value, op = shiftDate(p.Date, 400), p.Date, shiftDate(p.Date, 200)
		case "value-only":
			// no issue date at all (it defaults to today): the value date still decides
			issue, value = "", p.Date
		}
		combo := map[string]any{"cat": p.Cat, "rate": p.Rate}
		if len(p.Ext) > 0 {
			combo["ext"] = p.Ext
		}
		docTypes := []string{"bill/invoice"}
		if p.ValueDateMode == "issue" || p.ValueDateMode == "value-before-issue" || p.ValueDateMode == "value-only" {
			docTypes = append(docTypes, "bill/order", "bill/delivery")
		}
		var gp, gs string
		for _, docType := range docTypes {
			inv := map[string]any{
				"$schema":    "https://gobl.org/draft-0/" + docType,
				"$regime":    p.Regime,
				"code":       "T-1",
				"issue_date": issue,
				"currency":   reg.Currency,
				"supplier":   map[string]any{"name": "Supplier", "tax_id": map[string]any{"country": p.Regime}},
				"customer":   map[string]any{"name": "Customer"},
				"lines": []any{map[string]any{"quantity": "1", "item": map[string]any{"name": "thing", "price": "100.00"},
					"taxes": []any{combo}}},
			}
			if value != "" {
				inv["value_date"] = value
			}
			if issue == "" {
				delete(inv, "issue_date")
			}
			if op != "" {
				inv["op_date"] = op
			}
			docJSON, _ := json.Marshal(inv)
			var out []byte
			var cerr error
			pan, _ := Safely(func() {
				env, err := gx.EnvelopDoc(docJSON)
				cerr = err
				if err == nil {
					out, cerr = json.Marshal(env)
				}
			})
			if pan != nil {
				c.R.Count("invoice_path_panics", 1)
				c.R.Case(false, 0)
				return
			}
			c.R.Count("path_invoice", 1)
			c.R.Count("path_document:"+docType, 1)
			gp, gs = "", ""
			if cerr == nil {
				var e struct {
					Doc struct {
						Lines []struct {
							Taxes []struct {
								Percent   string `json:"percent"`
								Surcharge string `json:"surcharge"`
							} `json:"taxes"`
						} `json:"lines"`
					} `json:"doc"`
				}
				if json.Unmarshal(out, &e) == nil && len(e.Doc.Lines) == 1 && len(e.Doc.Lines[0].Taxes) == 1 {
					gp, gs = e.Doc.Lines[0].Taxes[0].Percent, e.Doc.Lines[0].Taxes[0].Surcharge
				}
			}
			if (cerr != nil) != wantErr || (cerr == nil && (!pctEq(gp, wantPct) || !pctEq(gs, wantSur))) {
				c.R.Fail(fmt.Sprintf("%s:%s:%s:%s:invoice:%s", cls, p.Regime, p.Cat, p.Rate, p.ValueDateMode)+strings.TrimPrefix(strings.TrimPrefix(":"+docType, ":bill/invoice"), ""),
					fmt.Sprintf("document %s issue=%s value=%s line tax %s/%s ext %v got percent=%q surcharge=%q err=%v; table value in force on the tax date is %q/%q (error expected=%v)", p.Regime, issue, value, p.Cat, p.Rate, p.Ext, gp, gs, cerr, wantPct, wantSur, wantErr),
					map[string]any{"point": p, "doc": json.RawMessage(docJSON)})
			}
		}
		// the same line with a second combo after it (another category of the regime,
		// percentage given): the first combo's verdict must not depend on what follows
		if p.ValueDateMode == "issue" {
			other := ""
			for _, oc := range reg.Categories {
				if oc.Code != p.Cat {
					other = oc.Code
					break
				}
			}
			if other != "" {
				inv := map[string]any{
					"$schema": "https://gobl.org/draft-0/bill/invoice", "$regime": p.Regime, "code": "T-2", "issue_date": p.Date, "currency": reg.Currency,
					"supplier": map[string]any{"name": "Supplier", "tax_id": map[string]any{"country": p.Regime}},
					"customer": map[string]any{"name": "Customer"},
					"lines": []any{map[string]any{"quantity": "1", "item": map[string]any{"name": "thing", "price": "100.00"},
						"taxes": []any{map[string]any{"cat": p.Cat, "rate": p.Rate, "ext": p.Ext}, map[string]any{"cat": other, "percent": "1.0%"}}}},
				}
				if len(p.Ext) == 0 {
					delete(inv["lines"].([]any)[0].(map[string]any)["taxes"].([]any)[0].(map[string]any), "ext")
				}
				docJSON, _ := json.Marshal(inv)
				var out []byte
				var cerr error
				if pan, _ := Safely(func() {
					env, err := gx.EnvelopDoc(docJSON)
					if cerr = err; err == nil {
						out, cerr = json.Marshal(env)
					}
				}); pan == nil {
					c.R.Count("path_invoice_two_combos", 1)
					g1, g2 := "", ""
					if cerr == nil {
						var e struct {
							Doc struct {
								Lines []struct {
									Taxes []struct {
										Percent   string `json:"percent"`
										Surcharge string `json:"surcharge"`
									} `json:"taxes"`
								} `json:"lines"`
							} `json:"doc"`
						}
						if json.Unmarshal(out, &e) == nil && len(e.Doc.Lines) == 1 && len(e.Doc.Lines[0].Taxes) == 2 {
							g1, g2 = e.Doc.Lines[0].Taxes[0].Percent, e.Doc.Lines[0].Taxes[0].Surcharge
						}
					}
					if (cerr != nil) != wantErr || (cerr == nil && (!pctEq(g1, wantPct) || !pctEq(g2, wantSur))) {
						c.R.Fail(fmt.Sprintf("%s:%s:%s:%s:invoice:two-combos", cls, p.Regime, p.Cat, p.Rate),
							fmt.Sprintf("invoice %s issue=%s line taxes [%s/%s, %s 1.0%%] got percent=%q surcharge=%q err=%v for the first combo; table value in force is %q/%q (error expected=%v)", p.Regime, p.Date, p.Cat, p.Rate, other, g1, g2, cerr, wantPct, wantSur, wantErr),
							map[string]any{"point": p, "doc": json.RawMessage(docJSON)})
					}
				}
			}
		}
		// a combo that already carries figures (a stored document rebuilt, a key edited
		// on a calculated document): with a rate key the table decides both percentage
		// and surcharge, whatever was there before
		if p.ValueDateMode == "issue" && (rate.Exempt || len(rate.Values) > 0) {
			for _, pre := range []map[string]string{{"percent": "99.9%", "surcharge": "9.9%"}, {"surcharge": "9.9%"}, {"percent": "99.9%"}} {
				cb := map[string]any{"cat": p.Cat, "rate": p.Rate}
				if len(p.Ext) > 0 {
					cb["ext"] = p.Ext
				}
				for k, v := range pre {
					cb[k] = v
				}
				inv := map[string]any{
					"$schema": "https://gobl.org/draft-0/bill/invoice", "$regime": p.Regime, "code": "T-3", "issue_date": p.Date, "currency": reg.Currency,
					"supplier": map[string]any{"name": "Supplier", "tax_id": map[string]any{"country": p.Regime}},
					"customer": map[string]any{"name": "Customer"},
					"lines": []any{map[string]any{"quantity": "1", "item": map[string]any{"name": "thing", "price": "100.00"}, "taxes": []any{cb}}},
				}
				docJSON, _ := json.Marshal(inv)
				var out []byte
				var cerr error
				if pan, _ := Safely(func() {
					env, err := gx.EnvelopDoc(docJSON)
					if cerr = err; err == nil {
						out, cerr = json.Marshal(env)
					}
				}); pan != nil {
					continue
				}
				c.R.Count("path_invoice_stored_figures", 1)
				g1, g2 := "", ""
				if cerr == nil {
					var e struct {
						Doc struct {
							Lines []struct {
								Taxes []struct {
									Percent   string `json:"percent"`
									Surcharge string `json:"surcharge"`
								} `json:"taxes"`
							} `json:"lines"`
						} `json:"doc"`
					}
					if json.Unmarshal(out, &e) == nil && len(e.Doc.Lines) == 1 && len(e.Doc.Lines[0].Taxes) == 1 {
						g1, g2 = e.Doc.Lines[0].Taxes[0].Percent, e.Doc.Lines[0].Taxes[0].Surcharge
					}
				}
				if (cerr != nil) != wantErr || (cerr == nil && (!pctEq(g1, wantPct) || !pctEq(g2, wantSur))) {
					c.R.Fail(fmt.Sprintf("%s:%s:%s:%s:invoice:stored-figures", cls, p.Regime, p.Cat, p.Rate),
						fmt.Sprintf("invoice %s issue=%s line tax %s/%s entered with %v got percent=%q surcharge=%q err=%v; table value in force is %q/%q (error expected=%v)", p.Regime, p.Date, p.Cat, p.Rate, pre, g1, g2, cerr, wantPct, wantSur, wantErr),
						map[string]any{"point": p, "doc": json.RawMessage(docJSON)})
					break
				}
			}
		}
		// combos elsewhere in the document get the same lookup: a document-level
		// discount or charge, also one that amounts to nothing, while the line has no tax
		if p.ValueDateMode == "issue" && (rate.Exempt || len(rate.Values) > 0) {
			for vi, variant := range []struct {
				kind string
				row  map[string]any
			}{
				{"discounts", map[string]any{"amount": "0.00", "reason": "none"}},
				{"discounts", map[string]any{"percent": "0%", "reason": "none"}},
				{"charges", map[string]any{"amount": "0.00", "reason": "none"}},
				{"discounts", map[string]any{"amount": "5.00", "reason": "some"}},
				{"charges", map[string]any{"percent": "10%", "reason": "some"}},
			} {
				cb := map[string]any{"cat": p.Cat, "rate": p.Rate}
				if len(p.Ext) > 0 {
					cb["ext"] = p.Ext
				}
				if vi%2 == 0 {
					cb["percent"] = "99.9%" // a figure left over from somewhere
				}
				row := map[string]any{"taxes": []any{cb}}
				for k, v := range variant.row {
					row[k] = v
				}
				inv := map[string]any{
					"$schema": "https://gobl.org/draft-0/bill/invoice", "$regime": p.Regime, "code": "T-4", "issue_date": p.Date, "currency": reg.Currency,
					"supplier": map[string]any{"name": "Supplier", "tax_id": map[string]any{"country": p.Regime}},
					"customer": map[string]any{"name": "Customer"},
					"lines":    []any{map[string]any{"quantity": "1", "item": map[string]any{"name": "thing", "price": "100.00"}}},
					variant.kind: []any{row},
				}
				docJSON, _ := json.Marshal(inv)
				var out []byte
				var cerr error
				if pan, _ := Safely(func() {
					env, err := gx.EnvelopDoc(docJSON)
					if cerr = err; err == nil {
						out, cerr = json.Marshal(env)
					}
				}); pan != nil {
					continue
				}
				c.R.Count("path_invoice_document_level_rows", 1)
				g1, g2, found := "", "", false
				if cerr == nil {
					var e struct {
						Doc map[string]json.RawMessage `json:"doc"`
					}
					var rows []struct {
						Taxes []struct {
							Percent   string `json:"percent"`
							Surcharge string `json:"surcharge"`
						} `json:"taxes"`
					}
					if json.Unmarshal(out, &e) == nil && json.Unmarshal(e.Doc[variant.kind], &rows) == nil && len(rows) == 1 && len(rows[0].Taxes) == 1 {
						g1, g2, found = rows[0].Taxes[0].Percent, rows[0].Taxes[0].Surcharge, true
					}
				}
				if cerr == nil && !found {
					continue // (the row was dropped: nothing presented to judge)
				}
				if (cerr != nil) != wantErr || (cerr == nil && (!pctEq(g1, wantPct) || !pctEq(g2, wantSur))) {
					c.R.Fail(fmt.Sprintf("%s:%s:%s:%s:invoice:document-level-row", cls, p.Regime, p.Cat, p.Rate),
						fmt.Sprintf("invoice %s issue=%s %s[0] %v with tax %s/%s got percent=%q surcharge=%q err=%v; table value in force is %q/%q (error expected=%v)", p.Regime, p.Date, variant.kind, variant.row, p.Cat, p.Rate, g1, g2, cerr, wantPct, wantSur, wantErr),
						map[string]any{"point": p, "doc": json.RawMessage(docJSON)})
					break
				}
			}
		}
		// which table a key resolves to: an extended key without a table of its own
		// takes the value of its component; a key that merely ends in the name of a
		// defined one (not separated by '+') belongs to no table and is refused
		if p.ValueDateMode == "issue" && len(p.Ext) == 0 {
			defined := map[string]bool{}
			for _, rt := range cat.Rates {
				defined[rt.Key] = true
			}
			for _, kv := range []struct {
				key     string
				refused bool
			}{{p.Rate + "+verif-x", false}, {"verif-" + p.Rate, true}, {"verif" + p.Rate, true}} {
				if defined[kv.key] || (!kv.refused && strings.Contains(p.Rate, "+")) {
					continue // (the component rule is only unambiguous for a simple key)
				}
				inv := map[string]any{
					"$schema": "https://gobl.org/draft-0/bill/invoice", "$regime": p.Regime, "code": "T-3", "issue_date": p.Date, "currency": reg.Currency,
					"supplier": map[string]any{"name": "Supplier", "tax_id": map[string]any{"country": p.Regime}},
					"customer": map[string]any{"name": "Customer"},
					"lines": []any{map[string]any{"quantity": "1", "item": map[string]any{"name": "thing", "price": "100.00"},
						"taxes": []any{map[string]any{"cat": p.Cat, "rate": kv.key}}}},
				}
				docJSON, _ := json.Marshal(inv)
				var out []byte
				var cerr error
				if pan, _ := Safely(func() {
					env, err := gx.EnvelopDoc(docJSON)
					if cerr = err; err == nil {
						out, cerr = json.Marshal(env)
					}
				}); pan != nil {
					continue
				}
				c.R.Count("path_invoice_derived_keys", 1)
				g1, g2 := "", ""
				if cerr == nil {
					var e struct {
						Doc struct {
							Lines []struct {
								Taxes []struct {
									Percent   string `json:"percent"`
									Surcharge string `json:"surcharge"`
								} `json:"taxes"`
							} `json:"lines"`
						} `json:"doc"`
					}
					if json.Unmarshal(out, &e) == nil && len(e.Doc.Lines) == 1 && len(e.Doc.Lines[0].Taxes) == 1 {
						g1, g2 = e.Doc.Lines[0].Taxes[0].Percent, e.Doc.Lines[0].Taxes[0].Surcharge
					}
				}
				switch {
				case kv.refused && cerr == nil:
					c.R.Fail(fmt.Sprintf("undefined-key-resolved:%s:%s:%s", p.Regime, p.Cat, p.Rate), fmt.Sprintf("%s %s: rate key %q is not defined (it only ends in %q) but the invoice calculates with percent %q", p.Regime, p.Cat, kv.key, p.Rate, g1), map[string]any{"point": p, "doc": json.RawMessage(docJSON)})
				case !kv.refused && ((cerr != nil) != wantErr || (cerr == nil && (!pctEq(g1, wantPct) || !pctEq(g2, wantSur)))):
					c.R.Fail(fmt.Sprintf("%s:%s:%s:%s:invoice:extended-key", cls, p.Regime, p.Cat, p.Rate), fmt.Sprintf("%s %s on %s: extended key %q got percent=%q surcharge=%q err=%v; its component %q has %q/%q in force (error expected=%v)", p.Regime, p.Cat, p.Date, kv.key, g1, g2, cerr, p.Rate, wantPct, wantSur, wantErr), map[string]any{"point": p, "doc": json.RawMessage(docJSON)})
				}
			}
		}
		if wantErr {
			c.R.Count("before_first_value_points", 1)
		}
		if strings.HasPrefix(cls, "boundary") {
			c.R.Count("boundary_points", 1)
		}
		c.R.Case(nontriv, ev.Hash(J(p)))
		if i%997 == 0 {
			c.R.Sample(map[string]any{"point": p, "expected_percent": wantPct, "expected_surcharge": wantSur, "expected_error": wantErr, "invoice_percent": gp})
		}
	})
	c.R.Exhaustive(true)
	c.Require("path_invoice", "path_RateDef.Value", "boundary_points", "before_first_value_points")
}

func boundaryClass(rate *defs.Rate, date string) string {
	earliest := ""
	for _, v := range rate.Values {
		if v.Since == "" {
			continue
		}
		if earliest == "" || v.Since < earliest {
			earliest = v.Since
		}
		switch date {
		case v.Since:
			return "boundary-start:" + v.Since
		case shiftDate(v.Since, -1):
			return "boundary-start-1:" + v.Since
		case shiftDate(v.Since, 1):
			return "boundary-start+1:" + v.Since
		}
	}
	if earliest != "" && date < earliest {
		return "before-first"
	}
	return "date"
}
