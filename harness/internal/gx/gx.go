// Package gx has small helpers to drive the real gobl library from JSON.
package gx

import (
	"encoding/json"
	"errors"
	"fmt"

	"github.com/invopop/gobl"
	"github.com/invopop/gobl/schema"
)

// EnvelopDoc parses a bare document (with $schema) and wraps it in a new
// envelope, which calculates it.
func EnvelopDoc(docJSON []byte) (*gobl.Envelope, error) {
	obj := new(schema.Object)
	if err := json.Unmarshal(docJSON, obj); err != nil {
		return nil, fmt.Errorf("unmarshal: %w", err)
	}
	if obj.IsEmpty() {
		return nil, errors.New("empty document")
	}
	return gobl.Envelop(obj)
}

// ParseEnvelope reads a serialised envelope.
func ParseEnvelope(data []byte) (*gobl.Envelope, error) {
	env := new(gobl.Envelope)
	if err := json.Unmarshal(data, env); err != nil {
		return nil, err
	}
	return env, nil
}

// DocJSON extracts the "doc" member of a serialised envelope.
func DocJSON(envJSON []byte) ([]byte, error) {
	var e struct {
		Doc json.RawMessage `json:"doc"`
	}
	if err := json.Unmarshal(envJSON, &e); err != nil {
		return nil, err
	}
	if len(e.Doc) == 0 {
		return nil, errors.New("no doc")
	}
	return e.Doc, nil
}

// ErrKey returns the gobl error key of err ("" if it is not a *gobl.Error).
func ErrKey(err error) string {
	var ge *gobl.Error
	if errors.As(err, &ge) {
		return ge.Key().String()
	}
	return ""
}

// bareDoc wraps a schema.Object so that marshalling gives the document alone.
type bareDoc struct{ obj *schema.Object }

// MarshalJSON of the bare document.
func (b *bareDoc) MarshalJSON() ([]byte, error) { return json.Marshal(b.obj) }

// EnvelopDocNoCalc parses a bare document without calculating it; marshalling
// the result gives the document's own serialisation.
func EnvelopDocNoCalc(docJSON []byte) (json.Marshaler, error) {
	obj := new(schema.Object)
	if err := json.Unmarshal(docJSON, obj); err != nil {
		return nil, err
	}
	if obj.IsEmpty() {
		return nil, errors.New("empty document")
	}
	return &bareDoc{obj}, nil
}
