// Package ev collects what a check observed, matches failures against the
// committed known-findings file, writes replay files and the evidence file and
// prints the VIOLATION / KNOWN-FINDING / INCONCLUSIVE lines.
package ev

import (
	"bufio"
	"crypto/sha256"
	"encoding/hex"
	"encoding/json"
	"fmt"
	"hash/fnv"
	"os"
	"path/filepath"
	"regexp"
	"sort"
	"strconv"
	"strings"
	"sync"
	"time"
)

// Root is the /verif directory (overridable for tests through VERIF_ROOT).
func Root() string {
	if r := os.Getenv("VERIF_ROOT"); r != "" {
		return r
	}
	return "/verif"
}

// Repo is the repository under test.
func Repo() string {
	if r := os.Getenv("VERIF_REPO"); r != "" {
		return r
	}
	return "/repo"
}

// Known is one line of KNOWN_FINDINGS.txt of kind "known:".
type Known struct {
	Property string
	Sig      string
	Text     string
}

var knownRe = regexp.MustCompile(`^known:\s+property=(\S+)\s+sig=(\S+)\s+::\s+(.*)$`)

// LoadKnown reads the committed known-findings file. Lines starting with
// "fixed:" and comments suppress nothing and are skipped.
func LoadKnown() []Known {
	f, err := os.Open(filepath.Join(Root(), "KNOWN_FINDINGS.txt"))
	if err != nil {
		return nil
	}
	defer f.Close()
	var out []Known
	sc := bufio.NewScanner(f)
	sc.Buffer(make([]byte, 1<<20), 1<<20)
	for sc.Scan() {
		m := knownRe.FindStringSubmatch(strings.TrimSpace(sc.Text()))
		if m != nil {
			out = append(out, Known{m[1], m[2], m[3]})
		}
	}
	return out
}

// Failure is one distinct failure signature with its first witness.
type Failure struct {
	Sig     string `json:"sig"`
	Desc    string `json:"desc"`
	Witness any    `json:"witness"`
	Count   int64  `json:"count"`
	Replay  string `json:"replay,omitempty"`
	Known   bool   `json:"known"`
}

// Reporter accumulates the observations of one check run. It is safe for
// concurrent use.
type Reporter struct {
	ID   string
	Tier string
	Seed int64

	start time.Time
	mu    sync.Mutex

	evals       int64
	distinct    map[uint64]struct{}
	distinctCap int
	distinctAdd int64
	capped      bool
	rule        string
	samples     []any
	maxSamples  int
	counters    map[string]int64
	extra       map[string]any
	fails       map[string]*Failure
	failOrder   []string
	inconcl     []string
	assumptions []string
	exhaustive  *bool
	known       []Known
	minNontriv  int64
}

// New creates a reporter for property id.
func New(id, tier string, seed int64) *Reporter {
	return &Reporter{
		ID: id, Tier: tier, Seed: seed, start: time.Now(),
		distinct: map[uint64]struct{}{}, distinctCap: 4_000_000,
		maxSamples: 8,
		counters:   map[string]int64{}, extra: map[string]any{},
		fails: map[string]*Failure{}, known: LoadKnown(), minNontriv: 2,
	}
}

// Rule states how cases are generated and what makes one non-trivial.
func (r *Reporter) Rule(s string) { r.rule = s }

// Assume records an assumption / trusted component.
func (r *Reporter) Assume(s string) {
	r.mu.Lock()
	r.assumptions = append(r.assumptions, s)
	r.mu.Unlock()
}

// MinNontrivial sets the number of distinct non-trivial cases below which the
// run is inconclusive.
func (r *Reporter) MinNontrivial(n int64) { r.minNontriv = n }

// Exhaustive marks the enumerated space as complete.
func (r *Reporter) Exhaustive(b bool) { r.exhaustive = &b }

// Hash is a helper returning a 64-bit content hash.
func Hash(parts ...string) uint64 {
	h := fnv.New64a()
	for _, p := range parts {
		h.Write([]byte(p))
		h.Write([]byte{0})
	}
	return h.Sum64()
}

// HashBytes hashes bytes.
func HashBytes(b []byte) uint64 {
	h := fnv.New64a()
	h.Write(b)
	return h.Sum64()
}

// Case records one executed case; nontrivial cases are counted as distinct by
// their content hash.
func (r *Reporter) Case(nontrivial bool, hash uint64) {
	r.mu.Lock()
	r.evals++
	if nontrivial {
		if len(r.distinct) < r.distinctCap {
			r.distinct[hash] = struct{}{}
		} else if _, ok := r.distinct[hash]; !ok {
			r.capped = true
		}
	}
	r.mu.Unlock()
}

// Cases records n executed cases of which d are distinct and non-trivial by
// construction (enumerations that cannot repeat a case).
func (r *Reporter) Cases(n, d int64) {
	r.mu.Lock()
	r.evals += n
	r.distinctAdd += d
	r.mu.Unlock()
}

// Count adds n to a named observation counter.
func (r *Reporter) Count(key string, n int64) {
	r.mu.Lock()
	r.counters[key] += n
	r.mu.Unlock()
}

// Counter reads a counter.
func (r *Reporter) Counter(key string) int64 {
	r.mu.Lock()
	defer r.mu.Unlock()
	return r.counters[key]
}

// Set stores an extra coverage key.
func (r *Reporter) Set(key string, v any) {
	r.mu.Lock()
	r.extra[key] = v
	r.mu.Unlock()
}

// Sample keeps a few actual cases for the evidence file.
func (r *Reporter) Sample(x any) {
	r.mu.Lock()
	if len(r.samples) < r.maxSamples {
		r.samples = append(r.samples, x)
	}
	r.mu.Unlock()
}

// WantSample tells whether more samples are wanted (cheap pre-check).
func (r *Reporter) WantSample() bool {
	r.mu.Lock()
	defer r.mu.Unlock()
	return len(r.samples) < r.maxSamples
}

// Fail records a failing case under signature sig. The first witness per
// signature is kept for the replay file.
func (r *Reporter) Fail(sig, desc string, witness any) {
	sig = strings.ReplaceAll(sig, " ", "_")
	r.mu.Lock()
	f := r.fails[sig]
	if f == nil {
		f = &Failure{Sig: sig, Desc: desc, Witness: witness}
		r.fails[sig] = f
		r.failOrder = append(r.failOrder, sig)
	}
	f.Count++
	r.mu.Unlock()
}

// Inconclusive records a reason why the run cannot decide.
func (r *Reporter) Inconclusive(reason string) {
	r.mu.Lock()
	r.inconcl = append(r.inconcl, reason)
	r.mu.Unlock()
}

// NFails returns the number of distinct failure signatures so far.
func (r *Reporter) NFails() int {
	r.mu.Lock()
	defer r.mu.Unlock()
	return len(r.fails)
}

func (r *Reporter) isKnown(sig string) (Known, bool) {
	for _, k := range r.known {
		if k.Property == r.ID && k.Sig == sig {
			return k, true
		}
	}
	return Known{}, false
}

func sanitize(s string) string {
	var b strings.Builder
	for _, c := range s {
		switch {
		case c >= 'a' && c <= 'z', c >= 'A' && c <= 'Z', c >= '0' && c <= '9', c == '-', c == '_', c == '.':
			b.WriteRune(c)
		default:
			b.WriteByte('_')
		}
	}
	out := b.String()
	if len(out) > 80 {
		sum := sha256.Sum256([]byte(s))
		out = out[:70] + "-" + hex.EncodeToString(sum[:4])
	}
	return out
}

// Finish writes replay files and the evidence file, prints the verdict lines
// and returns the process exit code (0 held, 1 violated, 2 inconclusive).
func (r *Reporter) Finish() int {
	r.mu.Lock()
	defer r.mu.Unlock()

	root := Root()
	replayDir := filepath.Join(root, "replay", r.ID)
	_ = os.MkdirAll(replayDir, 0o755)
	_ = os.MkdirAll(filepath.Join(root, "evidence"), 0o755)

	violations := 0
	knownSeen := 0
	sort.Strings(r.failOrder)
	var failList []*Failure
	for _, sig := range r.failOrder {
		f := r.fails[sig]
		failList = append(failList, f)
		path := filepath.Join(replayDir, sanitize(sig)+".json")
		rep := map[string]any{
			"property": r.ID, "sig": f.Sig, "desc": f.Desc, "witness": f.Witness,
			"count": f.Count, "seed": r.Seed, "tier": r.Tier,
		}
		if b, err := json.MarshalIndent(rep, "", " "); err == nil {
			_ = os.WriteFile(path, b, 0o644)
		}
		f.Replay = path
		if k, ok := r.isKnown(sig); ok {
			f.Known = true
			knownSeen++
			fmt.Printf("KNOWN-FINDING: property=%s sig=%s %s (observed %d×; replay=%s)\n", r.ID, sig, k.Text, f.Count, path)
			continue
		}
		violations++
		fmt.Printf("VIOLATION property=%s replay=%s sig=%s :: %s\n", r.ID, path, sig, oneLine(f.Desc))
	}

	distinct := int64(len(r.distinct)) + r.distinctAdd
	if violations == 0 && distinct < r.minNontriv {
		r.inconcl = append(r.inconcl, fmt.Sprintf("too-few-nontrivial-cases(%d<%d)", distinct, r.minNontriv))
	}

	cov := map[string]any{
		"evaluations":         r.evals,
		"distinct_nontrivial": distinct,
		"rule":                r.rule,
		"samples":             r.samples,
	}
	if len(r.samples) == 0 {
		cov["samples"] = []any{}
	}
	if r.capped {
		cov["distinct_note"] = "distinct set capped at " + strconv.Itoa(r.distinctCap) + " hashes: the count is a lower bound"
	}
	if r.exhaustive != nil {
		cov["exhaustive"] = *r.exhaustive
	}
	if len(r.counters) > 0 {
		cov["observed"] = r.counters
	}
	for k, v := range r.extra {
		cov[k] = v
	}
	if len(r.inconcl) > 0 {
		cov["inconclusive"] = r.inconcl
	}
	if len(failList) > 0 {
		cov["failure_signatures"] = failList
	}
	cov["known_findings_observed"] = knownSeen
	evd := map[string]any{
		"property_id": r.ID,
		"tier":        r.Tier,
		"seed":        r.Seed,
		"level":       "exploration",
		"coverage":    cov,
		"assumptions": r.assumptions,
		"wall_s":      time.Since(r.start).Seconds(),
		"violations":  violations,
	}
	if r.assumptions == nil {
		evd["assumptions"] = []string{}
	}
	b, err := json.MarshalIndent(evd, "", " ")
	if err != nil {
		fmt.Printf("INCONCLUSIVE property=%s reason=evidence-marshal:%v\n", r.ID, err)
		return 2
	}
	// (a replay writes next to the evidence of the last real run, not over it)
	if err := os.WriteFile(filepath.Join(root, "evidence", r.ID+os.Getenv("VERIF_EVIDENCE_SUFFIX")+".json"), b, 0o644); err != nil {
		fmt.Printf("INCONCLUSIVE property=%s reason=evidence-write:%v\n", r.ID, err)
		return 2
	}

	if violations > 0 {
		fmt.Printf("RESULT property=%s violated distinct_signatures=%d evaluations=%d\n", r.ID, violations, r.evals)
		return 1
	}
	if len(r.inconcl) > 0 {
		for _, reason := range r.inconcl {
			fmt.Printf("INCONCLUSIVE property=%s reason=%s\n", r.ID, reason)
		}
		return 2
	}
	fmt.Printf("RESULT property=%s held evaluations=%d distinct_nontrivial=%d known_findings=%d wall=%.1fs\n",
		r.ID, r.evals, distinct, knownSeen, time.Since(r.start).Seconds())
	return 0
}

func oneLine(s string) string {
	s = strings.ReplaceAll(s, "\n", " ")
	if len(s) > 400 {
		s = s[:400] + "…"
	}
	return s
}
