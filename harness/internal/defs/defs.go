// Package defs reads the *published* definition files under data/ (regimes,
// addons, catalogues, currency) — what non-Go consumers see — and offers the
// lookups the oracles need. It never calls into the library's registries.
package defs

import (
	"encoding/json"
	"os"
	"path/filepath"
	"sort"
	"strings"

	"verif/internal/ev"
)

// RateValue is one dated value of a rate.
type RateValue struct {
	Tags      []string          `json:"tags"`
	Ext       map[string]string `json:"ext"`
	Since     string            `json:"since"`
	Percent   string            `json:"percent"`
	Surcharge string            `json:"surcharge"`
	Disabled  bool              `json:"disabled"`
}

// Rate of a category.
type Rate struct {
	Key    string            `json:"key"`
	Exempt bool              `json:"exempt"`
	Values []*RateValue      `json:"values"`
	Ext    map[string]string `json:"ext"`
}

// Category of a regime.
type Category struct {
	Code       string   `json:"code"`
	Retained   bool     `json:"retained"`
	Rates      []*Rate  `json:"rates"`
	Extensions []string `json:"extensions"`
}

// KeyDef is a key definition with allowed values / pattern (extensions, tags…).
type KeyDef struct {
	Key    string `json:"key"`
	Values []struct {
		Code string `json:"code"`
		Key  string `json:"key"`
	} `json:"values"`
	Pattern string `json:"pattern"`
}

// TagSet lists tags per schema.
type TagSet struct {
	Schema string   `json:"schema"`
	List   []KeyDef `json:"list"`
}

// Correction definition per schema.
type Correction struct {
	Schema       string   `json:"schema"`
	Types        []string `json:"types"`
	Extensions   []string `json:"extensions"`
	ReasonNeeded bool     `json:"reason_required"`
	Stamps       []string `json:"stamps"`
	CopyTax      bool     `json:"copy_tax"`
}

// Regime as published.
type Regime struct {
	File        string
	Country     string       `json:"country"`
	AltCodes    []string     `json:"alt_country_codes"`
	Currency    string       `json:"currency"`
	TimeZone    string       `json:"time_zone"`
	Rounding    string       `json:"calculator_rounding_rule"`
	Tags        []TagSet     `json:"tags"`
	Extensions  []KeyDef     `json:"extensions"`
	Categories  []*Category  `json:"categories"`
	Corrections []Correction `json:"corrections"`
	Raw         map[string]any
}

// Addon as published.
type Addon struct {
	File        string
	Key         string       `json:"key"`
	Requires    []string     `json:"requires"`
	Extensions  []KeyDef     `json:"extensions"`
	Tags        []TagSet     `json:"tags"`
	Corrections []Correction `json:"corrections"`
	Raw         map[string]any
}

// Catalogue as published.
type Catalogue struct {
	File       string
	Key        string   `json:"key"`
	Extensions []KeyDef `json:"extensions"`
}

// All published definitions.
type All struct {
	Regimes    map[string]*Regime // by country code as written in the file
	RegimeList []*Regime
	Addons     map[string]*Addon
	Catalogues map[string]*Catalogue
	Currencies map[string]int // code -> subunits (decimals)
	Countries  map[string]bool
}

func readDir(dir string, fn func(file string, b []byte)) error {
	files, err := filepath.Glob(filepath.Join(ev.Repo(), dir, "*.json"))
	if err != nil {
		return err
	}
	sort.Strings(files)
	for _, f := range files {
		b, err := os.ReadFile(f)
		if err != nil {
			return err
		}
		fn(f, b)
	}
	return nil
}

// Load reads everything. Files that do not parse are reported in errs.
func Load() (*All, []string) {
	a := &All{Regimes: map[string]*Regime{}, Addons: map[string]*Addon{}, Catalogues: map[string]*Catalogue{}, Currencies: map[string]int{}, Countries: map[string]bool{}}
	var errs []string
	_ = readDir("data/regimes", func(f string, b []byte) {
		r := new(Regime)
		if err := json.Unmarshal(b, r); err != nil {
			errs = append(errs, f+": "+err.Error())
			return
		}
		_ = json.Unmarshal(b, &r.Raw)
		r.File = filepath.Base(f)
		a.RegimeList = append(a.RegimeList, r)
		// gr.json is an orphan of el.json (see C19); the file named after the
		// country code wins.
		base := strings.ToUpper(strings.TrimSuffix(r.File, ".json"))
		if prev, ok := a.Regimes[r.Country]; !ok || base == r.Country {
			_ = prev
			a.Regimes[r.Country] = r
		}
	})
	_ = readDir("data/addons", func(f string, b []byte) {
		ad := new(Addon)
		if err := json.Unmarshal(b, ad); err != nil {
			errs = append(errs, f+": "+err.Error())
			return
		}
		_ = json.Unmarshal(b, &ad.Raw)
		ad.File = filepath.Base(f)
		a.Addons[ad.Key] = ad
	})
	_ = readDir("data/catalogues", func(f string, b []byte) {
		c := new(Catalogue)
		if err := json.Unmarshal(b, c); err != nil {
			errs = append(errs, f+": "+err.Error())
			return
		}
		c.File = filepath.Base(f)
		a.Catalogues[c.Key] = c
	})
	return a, errs
}

// CategoryDef finds a category.
func (r *Regime) CategoryDef(code string) *Category {
	for _, c := range r.Categories {
		if c.Code == code {
			return c
		}
	}
	return nil
}

// RateDef finds a rate by exact key.
func (c *Category) RateDef(key string) *Rate {
	for _, r := range c.Rates {
		if r.Key == key {
			return r
		}
	}
	return nil
}

// Applies tells whether the value's filters match the given tags/extensions.
func (v *RateValue) Applies(tags []string, ext map[string]string) bool {
	if len(v.Tags) > 0 {
		ok := false
		for _, t := range v.Tags {
			for _, u := range tags {
				if t == u {
					ok = true
				}
			}
		}
		if !ok {
			return false
		}
	}
	for k, want := range v.Ext {
		if ext[k] != want {
			return false
		}
	}
	return true
}

// Filtered reports whether the value carries any filter.
func (v *RateValue) Filtered() bool { return len(v.Tags) > 0 || len(v.Ext) > 0 }

// InForce selects the value in force on date (YYYY-MM-DD): among the
// applicable values the one with the latest start on or before the date
// (absent start = always); ties go to the filtered value. ambiguous is set
// when two applicable values of the same filteredness share the winning start.
func (r *Rate) InForce(date string, tags []string, ext map[string]string) (best *RateValue, ambiguous bool) {
	for _, v := range r.Values {
		if !v.Applies(tags, ext) {
			continue
		}
		if v.Since != "" && v.Since > date { // ISO dates compare as strings
			continue
		}
		switch {
		case best == nil:
			best = v
		case v.Since > best.Since:
			best, ambiguous = v, false
		case v.Since == best.Since:
			if v.Filtered() && !best.Filtered() {
				best, ambiguous = v, false
			} else if v.Filtered() == best.Filtered() {
				ambiguous = true
			}
		}
	}
	return best, ambiguous
}
