// Package c14nref is an independent canonical-JSON reference written from
// c14n/README.md of invopop/gobl. It works on its own value tree, so that the
// expected canonical bytes of a generated value never depend on the code under
// test nor on parsing the input text.
package c14nref

import (
	"math"
	"math/big"
	"sort"
	"strconv"
	"strings"
	"unicode/utf8"
)

// Kind of a value.
type Kind int

// Kinds.
const (
	Null Kind = iota
	Bool
	Num // literal kept as text
	Str
	Arr
	Obj
)

// Member of an object.
type Member struct {
	Key string
	Val *Value
}

// Value is a JSON value tree.
type Value struct {
	K   Kind
	B   bool
	Lit string // number literal as it appears in the input
	S   string
	A   []*Value
	M   []Member
}

// IsIntLiteral: no fraction, no exponent, fits int64.
func IsIntLiteral(lit string) (int64, bool) {
	if strings.ContainsAny(lit, ".eE") {
		return 0, false
	}
	b, ok := new(big.Int).SetString(lit, 10)
	if !ok || !b.IsInt64() {
		return 0, false
	}
	return b.Int64(), true
}

// OutOfQuantifier tells whether the number literal is outside what the
// property quantifies over (integers beyond int64, magnitudes beyond float64).
func OutOfQuantifier(lit string) bool {
	if !strings.ContainsAny(lit, ".eE") {
		_, ok := IsIntLiteral(lit)
		return !ok
	}
	f, err := strconv.ParseFloat(lit, 64)
	return err != nil || math.IsInf(f, 0)
}

// FormatFloat renders a float per rule 7 of the README. alt is a second
// acceptable form (only differs for negative zero).
func FormatFloat(f float64) (canon string, alt string) {
	if f == 0 {
		if math.Signbit(f) {
			return "-0.0E0", "0.0E0"
		}
		return "0.0E0", "0.0E0"
	}
	s := strconv.FormatFloat(math.Abs(f), 'e', -1, 64)
	i := strings.IndexByte(s, 'e')
	mant, exp := s[:i], s[i+1:]
	digits := strings.Replace(mant, ".", "", 1)
	first := digits[:1]
	rest := strings.TrimRight(digits[1:], "0")
	if rest == "" {
		rest = "0"
	}
	n, _ := strconv.Atoi(exp)
	out := first + "." + rest + "E" + strconv.Itoa(n)
	if f < 0 {
		out = "-" + out
	}
	return out, out
}

// ErrInvalid marks values the specification rejects.
type ErrInvalid struct{ Why string }

func (e ErrInvalid) Error() string { return e.Why }

// HasFFFD reports whether any string of the value contains U+FFFD (either
// outcome is accepted for those).
func HasFFFD(v *Value) bool {
	switch v.K {
	case Str:
		return strings.ContainsRune(v.S, utf8.RuneError)
	case Arr:
		for _, x := range v.A {
			if HasFFFD(x) {
				return true
			}
		}
	case Obj:
		for _, m := range v.M {
			if strings.ContainsRune(m.Key, utf8.RuneError) || HasFFFD(m.Val) {
				return true
			}
		}
	}
	return false
}

func encString(b *strings.Builder, s string) error {
	if !utf8.ValidString(s) {
		return ErrInvalid{"invalid utf-8"}
	}
	b.WriteByte('"')
	for _, r := range s {
		switch r {
		case '"':
			b.WriteString(`\"`)
		case '\\':
			b.WriteString(`\\`)
		case '\b':
			b.WriteString(`\b`)
		case '\t':
			b.WriteString(`\t`)
		case '\n':
			b.WriteString(`\n`)
		case '\f':
			b.WriteString(`\f`)
		case '\r':
			b.WriteString(`\r`)
		default:
			if r < 0x20 {
				const hx = "0123456789ABCDEF"
				b.WriteString(`\u00`)
				b.WriteByte(hx[r>>4])
				b.WriteByte(hx[r&15])
			} else {
				b.WriteRune(r)
			}
		}
	}
	b.WriteByte('"')
	return nil
}

func lessCodePoints(a, b string) bool {
	ra, rb := []rune(a), []rune(b)
	for i := 0; i < len(ra) && i < len(rb); i++ {
		if ra[i] != rb[i] {
			return ra[i] < rb[i]
		}
	}
	return len(ra) < len(rb)
}

// Canon writes the canonical form. negZeroAlt selects the alternative
// rendering of a negative-zero float.
func Canon(v *Value, negZeroAlt bool) (string, error) {
	var b strings.Builder
	if err := canon(&b, v, negZeroAlt); err != nil {
		return "", err
	}
	return b.String(), nil
}

func canon(b *strings.Builder, v *Value, alt bool) error {
	switch v.K {
	case Null:
		b.WriteString("null")
	case Bool:
		if v.B {
			b.WriteString("true")
		} else {
			b.WriteString("false")
		}
	case Num:
		if i, ok := IsIntLiteral(v.Lit); ok {
			b.WriteString(strconv.FormatInt(i, 10)) // -0 parses to 0
			return nil
		}
		f, err := strconv.ParseFloat(v.Lit, 64)
		if err != nil {
			return ErrInvalid{"number out of range"}
		}
		c, a := FormatFloat(f)
		if alt {
			c = a
		}
		b.WriteString(c)
	case Str:
		return encString(b, v.S)
	case Arr:
		b.WriteByte('[')
		for i, x := range v.A {
			if i > 0 {
				b.WriteByte(',')
			}
			if err := canon(b, x, alt); err != nil {
				return err
			}
		}
		b.WriteByte(']')
	case Obj:
		ms := make([]Member, 0, len(v.M))
		for _, m := range v.M {
			if m.Val.K != Null {
				ms = append(ms, m)
			}
		}
		sort.SliceStable(ms, func(i, j int) bool { return lessCodePoints(ms[i].Key, ms[j].Key) })
		b.WriteByte('{')
		for i, m := range ms {
			if i > 0 {
				b.WriteByte(',')
			}
			if err := encString(b, m.Key); err != nil {
				return err
			}
			b.WriteByte(':')
			if err := canon(b, m.Val, alt); err != nil {
				return err
			}
		}
		b.WriteByte('}')
	}
	return nil
}

// Style controls how Encode writes a value (content-preserving variations).
type Style struct {
	Indent     bool
	Perm       func(n int) []int // member permutation (nil = as is)
	EscapeAll  bool              // every non-ASCII and some ASCII chars as \uXXXX (surrogate pairs beyond the BMP)
	SlashEsc   bool              // "/" as "\/"
	LowerHex   bool
	ExtraSpace bool
}

// Encode writes v as JSON text in the given style. Strings must be valid UTF-8.
func Encode(v *Value, st Style) string {
	var b strings.Builder
	encode(&b, v, st, 0)
	return b.String()
}

func nl(b *strings.Builder, st Style, depth int) {
	if st.Indent {
		b.WriteByte('\n')
		for i := 0; i < depth; i++ {
			b.WriteString("  ")
		}
	}
}

func encStr(b *strings.Builder, s string, st Style) {
	b.WriteByte('"')
	hexf := "%04X"
	if st.LowerHex {
		hexf = "%04x"
	}
	for _, r := range s {
		switch {
		case r == '"':
			b.WriteString(`\"`)
		case r == '\\':
			b.WriteString(`\\`)
		case r == '/' && st.SlashEsc:
			b.WriteString(`\/`)
		case r < 0x20:
			if !st.EscapeAll {
				switch r {
				case '\n':
					b.WriteString(`\n`)
					continue
				case '\t':
					b.WriteString(`\t`)
					continue
				case '\r':
					b.WriteString(`\r`)
					continue
				}
			}
			b.WriteString(`\u` + hexN(hexf, uint32(r)))
		case st.EscapeAll && (r > 0x7e || r%3 == 0):
			if r >= 0x10000 {
				r2 := r - 0x10000
				b.WriteString(`\u` + hexN(hexf, uint32(0xD800+(r2>>10))))
				b.WriteString(`\u` + hexN(hexf, uint32(0xDC00+(r2&0x3ff))))
			} else {
				b.WriteString(`\u` + hexN(hexf, uint32(r)))
			}
		default:
			b.WriteRune(r)
		}
	}
	b.WriteByte('"')
}

func hexN(f string, v uint32) string {
	const up = "0123456789ABCDEF"
	const lo = "0123456789abcdef"
	t := up
	if f == "%04x" {
		t = lo
	}
	return string([]byte{t[(v>>12)&15], t[(v>>8)&15], t[(v>>4)&15], t[v&15]})
}

func encode(b *strings.Builder, v *Value, st Style, depth int) {
	sp := ""
	if st.ExtraSpace {
		sp = " \t"
	}
	switch v.K {
	case Null:
		b.WriteString("null")
	case Bool:
		if v.B {
			b.WriteString("true")
		} else {
			b.WriteString("false")
		}
	case Num:
		b.WriteString(v.Lit)
	case Str:
		encStr(b, v.S, st)
	case Arr:
		b.WriteByte('[')
		b.WriteString(sp)
		for i, x := range v.A {
			if i > 0 {
				b.WriteByte(',')
				b.WriteString(sp)
			}
			nl(b, st, depth+1)
			encode(b, x, st, depth+1)
		}
		if len(v.A) > 0 {
			nl(b, st, depth)
		}
		b.WriteByte(']')
	case Obj:
		idx := make([]int, len(v.M))
		for i := range idx {
			idx[i] = i
		}
		if st.Perm != nil {
			idx = st.Perm(len(v.M))
		}
		b.WriteByte('{')
		for n, i := range idx {
			if n > 0 {
				b.WriteByte(',')
			}
			nl(b, st, depth+1)
			encStr(b, v.M[i].Key, st)
			b.WriteString(sp)
			b.WriteByte(':')
			if st.Indent {
				b.WriteByte(' ')
			}
			encode(b, v.M[i].Val, st, depth+1)
		}
		if len(v.M) > 0 {
			nl(b, st, depth)
		}
		b.WriteByte('}')
	}
}

// Equal compares the content of a value tree (minus null members) with a
// decoded canonical form x (from encoding/json with UseNumber), with int64
// semantics for integer literals and float64 semantics otherwise.
func Equal(v *Value, x any, num func(any) (string, bool)) bool {
	switch v.K {
	case Null:
		return x == nil
	case Bool:
		b, ok := x.(bool)
		return ok && b == v.B
	case Str:
		s, ok := x.(string)
		return ok && s == v.S
	case Num:
		lit, ok := num(x)
		if !ok {
			return false
		}
		if i, isInt := IsIntLiteral(v.Lit); isInt {
			j, ok2 := IsIntLiteral(lit)
			return ok2 && i == j
		}
		f1, e1 := strconv.ParseFloat(v.Lit, 64)
		f2, e2 := strconv.ParseFloat(lit, 64)
		if e1 != nil || e2 != nil {
			return false
		}
		// a float must stay a float in canonical form (type is part of the content)
		if _, isInt := IsIntLiteral(lit); isInt {
			return false
		}
		return f1 == f2
	case Arr:
		a, ok := x.([]any)
		if !ok || len(a) != len(v.A) {
			return false
		}
		for i := range a {
			if !Equal(v.A[i], a[i], num) {
				return false
			}
		}
		return true
	case Obj:
		m, ok := x.(map[string]any)
		if !ok {
			return false
		}
		n := 0
		for _, mem := range v.M {
			if mem.Val.K == Null {
				if _, present := m[mem.Key]; present {
					return false
				}
				continue
			}
			n++
			y, present := m[mem.Key]
			if !present || !Equal(mem.Val, y, num) {
				return false
			}
		}
		return n == len(m)
	}
	return false
}
