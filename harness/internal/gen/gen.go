// Package gen synthesises bill documents (invoices, orders, deliveries) from a
// seeded grammar, biased toward the places where the calculation can go wrong:
// half-unit ties at rounding points, mixed precisions, negative figures,
// foreign-currency items, tax-included prices, retained taxes, surcharges.
package gen

import (
	"encoding/json"
	"fmt"
	"math/rand/v2"
	"os"
	"path/filepath"
	"sort"
	"strings"

	"verif/internal/dec"
	"verif/internal/defs"
	"verif/internal/ev"
)

// Currencies maps ISO codes to decimals, read from data/currency.
func Currencies() map[string]int {
	out := map[string]int{}
	for _, f := range []string{"iso.json", "non-iso.json"} {
		b, err := os.ReadFile(filepath.Join(ev.Repo(), "data/currency", f))
		if err != nil {
			continue
		}
		var list []struct {
			Code     string `json:"iso_code"`
			Subunits int    `json:"subunits"`
		}
		if json.Unmarshal(b, &list) == nil {
			for _, c := range list {
				out[c.Code] = c.Subunits
			}
		}
	}
	return out
}

// Profile tunes the generator.
type Profile struct {
	Schema       string // "bill/invoice" | "bill/order" | "bill/delivery"
	Rule         string // "" (random / regime default), "precise", "currency"
	MaxLines     int
	CurrencyOnly bool // C03 domain: fixed amounts at currency precision
	TaxFocus     bool // more combos per row, colliding groups
	Regimes      []string
	NoForeign    bool
	Preset       bool // allow a preset totals.rounding
	FixedAtCur   bool // fixed discount/charge/advance amounts at the currency's precision (bases and prices unrestricted)
	ManyOddFixed bool // two or three document discounts and charges, most of them fixed amounts with 1-3 decimals more than the currency
}

// Doc is a generated document.
type Doc struct {
	JSON     []byte
	Regime   string
	Currency string
	Rule     string // explicit rule or ""
	Features map[string]bool
}

// G is a generator instance.
type G struct {
	Defs *defs.All
	Cur  map[string]int
	rng  *rand.Rand
}

// New makes a generator.
func New(rng *rand.Rand, all *defs.All) *G {
	return &G{Defs: all, Cur: Currencies(), rng: rng}
}

func (g *G) pick(list ...string) string { return list[g.rng.IntN(len(list))] }

func (g *G) chance(n int) bool { return g.rng.IntN(n) == 0 }

// amount builds a decimal text with e decimals.
func (g *G) amount(maxUnits int64, e int, allowNeg bool) string {
	v := g.rng.Int64N(maxUnits)
	if allowNeg && g.chance(6) {
		v = -v
	}
	return dec.New(v, e).String()
}

// maxFor gives the unit bound for values up to maxValue with e decimals.
func maxFor(e int, maxValue int64) int64 {
	v := maxValue
	for i := 0; i < e; i++ {
		v *= 10
	}
	return v
}

var tiePercents = []string{"50%", "12.5%", "2.5%", "0.5%", "25%", "7.5%", "37.5%"}
var plainPercents = []string{"10%", "21.0%", "15%", "3%", "33.33%", "5.5%", "100%", "0.1%", "19.0%", "8.875%"}

func (g *G) percent() string {
	if g.rng.IntN(3) == 0 {
		return tiePercents[g.rng.IntN(len(tiePercents))]
	}
	return plainPercents[g.rng.IntN(len(plainPercents))]
}

// regimeCombos lists usable (category, rate, retained) of a regime on the issue date.
type comboSpec struct {
	Cat      string
	Rate     string
	Retained bool
	Ext      map[string]string
}

func (g *G) regimeCombos(reg *defs.Regime, date string) []comboSpec {
	var out []comboSpec
	for _, c := range reg.Categories {
		for _, r := range c.Rates {
			if r.Exempt || len(r.Values) == 0 {
				out = append(out, comboSpec{Cat: c.Code, Rate: r.Key, Retained: c.Retained})
				continue
			}
			ok := false
			for _, v := range r.Values {
				if !v.Filtered() && (v.Since == "" || v.Since <= date) {
					ok = true
				}
			}
			if ok {
				out = append(out, comboSpec{Cat: c.Code, Rate: r.Key, Retained: c.Retained})
			}
			for _, v := range r.Values {
				if len(v.Ext) > 0 && (v.Since == "" || v.Since <= date) {
					out = append(out, comboSpec{Cat: c.Code, Rate: r.Key, Retained: c.Retained, Ext: v.Ext})
				}
			}
		}
		// percent-only and exempt (no rate) combos of the category
		out = append(out, comboSpec{Cat: c.Code, Retained: c.Retained})
	}
	return out
}

func (g *G) taxSet(specs []comboSpec, p Profile, feats map[string]bool, pit string) []any {
	if len(specs) == 0 {
		// no regime: free categories with explicit percentages
		specs = []comboSpec{{Cat: "VAT"}, {Cat: "GST"}, {Cat: "ST"}}
	}
	n := 1
	if p.TaxFocus {
		n = 1 + g.rng.IntN(3)
	} else if g.chance(3) {
		n = 2
	}
	if g.chance(8) {
		n = 0
	}
	used := map[string]bool{}
	var out []any
	for i := 0; i < n; i++ {
		s := specs[g.rng.IntN(len(specs))]
		if pit != "" && i == 0 && g.rng.IntN(3) > 0 {
			// most rows should carry the included category
			for _, x := range specs {
				if x.Cat == pit && x.Rate != "" && !strings.Contains(x.Rate, "exempt") {
					s = x
					break
				}
			}
		}
		if used[s.Cat] {
			continue
		}
		used[s.Cat] = true
		cb := map[string]any{"cat": s.Cat}
		if s.Rate != "" {
			cb["rate"] = s.Rate
			if strings.Contains(s.Rate, "eqs") {
				feats["surcharge"] = true
			}
			if strings.Contains(s.Rate, "exempt") {
				feats["exempt"] = true
			}
			if s.Rate == "zero" {
				feats["zero-rate"] = true
			}
		} else {
			switch g.rng.IntN(6) {
			case 0:
				feats["exempt"] = true // no percent at all
			case 1:
				cb["percent"] = g.pick("0%", "0.0%")
				feats["zero-rate"] = true
			default:
				cb["percent"] = g.percent()
				if g.chance(5) {
					cb["surcharge"] = g.pick("5.2%", "1.4%", "0.5%", "2.5%")
					feats["surcharge"] = true
				}
			}
		}
		if len(s.Ext) > 0 {
			cb["ext"] = s.Ext
			feats["ext-qualified"] = true
		} else if s.Rate == "" && ((p.TaxFocus && g.chance(4)) || g.chance(12)) {
			// maps that are equal, different, disjoint or strict subsets of one another
			switch g.rng.IntN(5) {
			case 0:
				cb["ext"] = map[string]string{"verif-ext": "a"}
			case 1:
				cb["ext"] = map[string]string{"verif-ext": "b"}
			case 2:
				cb["ext"] = map[string]string{"verif-ext": "a", "verif-two": "x"}
			case 3:
				cb["ext"] = map[string]string{"verif-two": "x"}
			default:
				cb["ext"] = map[string]string{"verif-ext": "a", "verif-two": "x", "verif-three": "y"}
			}
			feats["ext-qualified"] = true
		}
		if g.chance(12) && !s.Retained {
			// per-combo country override; percentage explicit so any country works
			cb["country"] = g.pick("FR", "PT", "DE", "ZZ")
			delete(cb, "rate")
			delete(cb, "ext")
			cb["percent"] = g.percent()
			feats["country-override"] = true
		}
		if s.Retained {
			feats["retained"] = true
		}
		out = append(out, cb)
	}
	return out
}

// priceQty returns price and quantity texts; a third of the time built so that
// the exact product lands on (or next to) a half unit of the working precision.
func (g *G) priceQty(c int, rule string, feats map[string]bool) (string, string) {
	pe := g.rng.IntN(7) // 0-6 decimals
	if g.rng.IntN(2) == 0 {
		pe = c
	}
	if g.rng.IntN(3) == 0 {
		// tie construction: quantity x.5 (or x.05, x.005), price odd in its last working digit
		w := c + 2
		if rule == "currency" {
			w = c
		}
		if pe > w {
			w = pe
		}
		units := 2*g.rng.Int64N(50_000) + 1 // odd
		price := dec.New(units, w)
		qe := 1 + g.rng.IntN(3)
		q := g.rng.Int64N(300)*10 + 5
		switch g.rng.IntN(5) {
		case 0:
			q++
		case 1:
			q--
		}
		qty := dec.New(q, qe)
		if g.chance(5) {
			qty = qty.Neg()
		}
		if g.chance(8) {
			price = price.Neg()
		}
		feats["tie-constructed"] = true
		return price.String(), qty.String()
	}
	price := g.amount(maxFor(pe, 400), pe, true)
	qe := 0
	if g.rng.IntN(3) == 0 {
		qe = 1 + g.rng.IntN(6)
	}
	var qty string
	if qe == 0 {
		qty = fmt.Sprint(1 + g.rng.IntN(40))
		if g.chance(10) {
			qty = "-" + qty
		}
		if g.chance(40) {
			qty = "0"
		}
	} else {
		qty = g.amount(maxFor(qe, 60), qe, true)
	}
	if pe > c {
		feats["price-beyond-currency"] = true
	}
	return price, qty
}

func (g *G) lineDCs(c int, p Profile, feats map[string]bool, charge bool) []any {
	n := 0
	switch g.rng.IntN(6) {
	case 0:
		n = 1
	case 1:
		n = 2
	}
	var out []any
	for i := 0; i < n; i++ {
		d := map[string]any{}
		if g.rng.IntN(3) > 0 {
			d["reason"] = "generated" // (a row given by its figures alone is a row too)
		}
		switch k := g.rng.IntN(10); {
		case k < 4:
			d["percent"] = g.percent()
			feats["line-dc-percent"] = true
		case k < 6:
			d["percent"] = g.percent()
			be := c
			if !p.CurrencyOnly && g.chance(2) {
				be = g.rng.IntN(6)
			} else if c > 0 && g.chance(3) {
				be = g.rng.IntN(c)
			}
			d["base"] = g.amount(maxFor(be, 2000), be, false)
			feats["line-dc-percent-base"] = true
		case k < 8 || !charge:
			e := c
			if !p.CurrencyOnly && !p.FixedAtCur && g.chance(3) {
				e = g.rng.IntN(6)
				feats["fixed-amount-odd-precision"] = true
			}
			d["amount"] = g.amount(maxFor(e, 300), e, false)
			feats["line-dc-fixed"] = true
		default:
			re := g.rng.IntN(5)
			if p.CurrencyOnly {
				re = g.rng.IntN(c + 1)
			}
			d["rate"] = g.amount(maxFor(re, 50), re, false)
			if g.chance(2) {
				qe2 := g.rng.IntN(3)
				d["quantity"] = g.amount(maxFor(qe2, 40), qe2, false)
			}
			feats["charge-rate-quantity"] = true
		}
		out = append(out, d)
	}
	return out
}

func (g *G) docDCs(c int, p Profile, specs []comboSpec, feats map[string]bool, pit string) []any {
	n := 0
	switch g.rng.IntN(5) {
	case 0:
		n = 1
	case 1:
		n = 2
	}
	if p.ManyOddFixed {
		n = 2 + g.rng.IntN(2)
	}
	var out []any
	for i := 0; i < n; i++ {
		d := map[string]any{}
		if g.rng.IntN(3) > 0 {
			d["reason"] = "generated" // (a row given by its figures alone is a row too)
		}
		k := g.rng.IntN(3)
		if p.ManyOddFixed && g.rng.IntN(3) > 0 {
			k = 2
		}
		switch k {
		case 0:
			d["percent"] = g.percent()
			feats["doc-dc-percent"] = true
		case 1:
			d["percent"] = g.percent()
			be := c
			if !p.CurrencyOnly && g.chance(2) {
				be = g.rng.IntN(6)
			} else if c > 0 && g.chance(3) {
				be = g.rng.IntN(c) // a round base written with fewer decimals than the currency
			}
			d["base"] = g.amount(maxFor(be, 20000), be, false)
			feats["doc-dc-percent-base"] = true
		default:
			e := c
			if !p.CurrencyOnly && !p.FixedAtCur && g.chance(3) {
				e = g.rng.IntN(6)
				feats["fixed-amount-odd-precision"] = true
			}
			if p.ManyOddFixed {
				e = c + 1 + g.rng.IntN(3)
				feats["fixed-amount-odd-precision"] = true
			}
			d["amount"] = g.amount(maxFor(e, 2000), e, false)
			feats["doc-dc-fixed"] = true
		}
		if ts := g.taxSet(specs, p, feats, pit); len(ts) > 0 {
			d["taxes"] = ts
		}
		out = append(out, d)
	}
	return out
}

var regimeCurrency = map[string]string{}

// Document generates one document.
func (g *G) Document(p Profile) *Doc {
	feats := map[string]bool{}
	regs := p.Regimes
	if len(regs) == 0 {
		for _, r := range g.Defs.RegimeList {
			if g.Defs.Regimes[r.Country] == r {
				regs = append(regs, r.Country)
			}
		}
		sort.Strings(regs)
		regs = append(regs, "") // no regime
	}
	rc := regs[g.rng.IntN(len(regs))]
	var reg *defs.Regime
	if rc != "" {
		reg = g.Defs.Regimes[rc]
	}
	date := "2024-06-13"
	cur := "EUR"
	if reg != nil {
		cur = reg.Currency
	}
	if g.chance(4) || reg == nil {
		cur = g.pick("EUR", "USD", "JPY", "CLP", "KWD", "BHD", "GBP", "MXN", "KRW", "TND")
	}
	c, ok := g.Cur[cur]
	if !ok {
		cur, c = "EUR", 2
	}
	feats[fmt.Sprintf("currency-decimals-%d", c)] = true
	rule := p.Rule
	if rule == "" && g.chance(2) {
		rule = g.pick("precise", "currency")
	}
	effRule := rule
	if effRule == "" {
		effRule = "precise"
		if reg != nil && reg.Rounding != "" {
			effRule = reg.Rounding
			feats["regime-default-rule"] = true
		}
	}
	var specs []comboSpec
	if reg != nil {
		specs = g.regimeCombos(reg, date)
	}
	pit := ""
	if g.chance(4) {
		cands := []string{"VAT"}
		for _, s := range specs {
			if !s.Retained {
				cands = append(cands, s.Cat)
			}
		}
		pit = cands[g.rng.IntN(len(cands))]
		feats["prices-include"] = true
	}
	maxLines := p.MaxLines
	if maxLines == 0 {
		maxLines = 12
	}
	nLines := 1 + g.rng.IntN(maxLines)
	if g.chance(3) {
		nLines = 1 + g.rng.IntN(3)
	}
	rates := map[string]string{}
	var lines []any
	for i := 0; i < nLines; i++ {
		price, qty := g.priceQty(c, effRule, feats)
		item := map[string]any{"name": fmt.Sprintf("Item %d", i+1), "price": price}
		if !p.NoForeign && g.chance(7) {
			fc := g.pick("USD", "GBP", "JPY", "KWD", "EUR", "MXN")
			if fc != cur {
				item["currency"] = fc
				// the price is written in the foreign currency's usual precision or beyond
				fd := g.Cur[fc]
				fe := fd + g.rng.IntN(3)
				item["price"] = g.amount(maxFor(fe, 400), fe, false)
				if g.chance(3) {
					item["alt_prices"] = []any{map[string]any{"currency": cur, "value": g.amount(maxFor(c+1, 400)/10, c+g.rng.IntN(2), false)}}
					feats["alt-price"] = true
				} else {
					if _, ok := rates[fc]; !ok {
						rates[fc] = dec.New(1+g.rng.Int64N(30_000), 1+g.rng.IntN(5)).String()
					}
					feats["exchange-rate"] = true
				}
			}
		}
		l := map[string]any{"quantity": qty, "item": item}
		if g.chance(9) {
			// breakdown replaces the price
			var bd []any
			for j := 0; j < 1+g.rng.IntN(3); j++ {
				bp, bq := g.priceQty(c, effRule, feats)
				sl := map[string]any{"quantity": bq, "item": map[string]any{"name": fmt.Sprintf("Part %d", j+1), "price": bp}}
				if ds := g.lineDCs(c, p, feats, false); len(ds) > 0 {
					sl["discounts"] = ds
				}
				bd = append(bd, sl)
			}
			l["breakdown"] = bd
			delete(item, "price")
			delete(item, "currency")
			delete(item, "alt_prices")
			feats["breakdown"] = true
		}
		if ds := g.lineDCs(c, p, feats, false); len(ds) > 0 {
			l["discounts"] = ds
		}
		if cs := g.lineDCs(c, p, feats, true); len(cs) > 0 {
			l["charges"] = cs
		}
		if ts := g.taxSet(specs, p, feats, pit); len(ts) > 0 {
			l["taxes"] = ts
		}
		lines = append(lines, l)
	}
	doc := map[string]any{
		"$schema":    "https://gobl.org/draft-0/" + p.Schema,
		"uuid":       "0190a1b2-c3d4-7e5f-8a9b-0c1d2e3f4a5b",
		"code":       "GEN-1",
		"issue_date": date,
		"currency":   cur,
		"supplier":   map[string]any{"name": "Generated Supplier"},
		"customer":   map[string]any{"name": "Generated Customer"},
		"lines":      lines,
	}
	if reg != nil {
		doc["supplier"].(map[string]any)["tax_id"] = map[string]any{"country": rc}
	}
	tx := map[string]any{}
	if pit != "" {
		tx["prices_include"] = pit
	}
	if rule != "" {
		tx["rounding"] = rule
	}
	if len(tx) > 0 {
		doc["tax"] = tx
	}
	if ds := g.docDCs(c, p, specs, feats, pit); len(ds) > 0 {
		doc["discounts"] = ds
	}
	if cs := g.docDCs(c, p, specs, feats, pit); len(cs) > 0 {
		doc["charges"] = cs
	}
	if len(rates) > 0 {
		var xr []any
		var froms []string
		for f := range rates {
			froms = append(froms, f)
		}
		sort.Strings(froms)
		for _, f := range froms {
			xr = append(xr, map[string]any{"from": f, "to": cur, "amount": rates[f]})
		}
		doc["exchange_rates"] = xr
	}
	pay := map[string]any{}
	if g.chance(3) {
		var adv []any
		for i := 0; i < 1+g.rng.IntN(2); i++ {
			a := map[string]any{"description": "advance"}
			if g.chance(2) {
				a["percent"] = g.percent()
				feats["advance-percent"] = true
			} else {
				e := c
				if !p.CurrencyOnly && !p.FixedAtCur && g.chance(4) {
					e = c + 1 + g.rng.IntN(2)
					feats["fixed-amount-odd-precision"] = true
				}
				a["amount"] = g.amount(maxFor(e, 3000), e, false)
				feats["advance-fixed"] = true
			}
			adv = append(adv, a)
		}
		pay["advances"] = adv
	}
	if p.ManyOddFixed && g.chance(2) {
		// an advance whose percentage was set (back) to nothing while the amount of an
		// earlier calculation is still there: the percentage decides
		adv, _ := pay["advances"].([]any)
		adv = append(adv, map[string]any{"description": "advance", "percent": g.pick("0%", "0.0%", "0.00%"), "amount": g.amount(maxFor(c, 3000), c, false)})
		pay["advances"] = adv
		feats["advance-zero-percent-with-amount"] = true
	}
	if g.chance(4) {
		var dd []any
		for i := 0; i < 1+g.rng.IntN(2); i++ {
			d := map[string]any{"date": "2024-07-13"}
			if g.chance(2) {
				d["percent"] = g.pick("50%", "33.3%", "100%", "12.5%", "40%")
				feats["due-percent"] = true
			} else {
				d["amount"] = g.amount(maxFor(c, 3000), c, false)
			}
			dd = append(dd, d)
		}
		pay["terms"] = map[string]any{"key": "due-date", "due_dates": dd}
	}
	if len(pay) > 0 && p.Schema != "bill/delivery" { // deliveries carry no payment details
		doc["payment"] = pay
	}
	if p.Preset && g.chance(6) {
		// a few smallest units of the document currency
		doc["totals"] = map[string]any{"rounding": dec.New(int64(g.rng.IntN(11)-5), c).String()}
		feats["preset-rounding"] = true
	}
	if effRule == "currency" {
		feats["rule-currency"] = true
	} else {
		feats["rule-precise"] = true
	}
	b, _ := json.Marshal(doc)
	return &Doc{JSON: b, Regime: rc, Currency: cur, Rule: rule, Features: feats}
}
