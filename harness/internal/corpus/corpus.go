// Package corpus loads the calculated example envelopes shipped in the gobl
// tree (golden outputs of the repository's own example tests).
package corpus

import (
	"encoding/json"
	"github.com/invopop/yaml"
	"os"
	"path/filepath"
	"sort"
	"strings"

	"verif/internal/ev"
)

// Item is one golden envelope.
type Item struct {
	Path   string   // absolute
	Rel    string   // relative to the repository
	Data   []byte   // file bytes
	Type   string   // short document type, e.g. "bill/invoice"
	Regime string   // $regime of the document, "" if none
	Addons []string // $addons of the document
}

var globs = []string{
	"examples/*/out/*.json",
	"regimes/common/examples/out/*.json",
	"note/examples/out/*.json",
}

// Golden returns all golden envelopes whose document schema is registered
// (examples/pt/out/receipt.json names an unregistered schema and is skipped).
func Golden() []Item {
	var out []Item
	repo := ev.Repo()
	for _, g := range globs {
		files, _ := filepath.Glob(filepath.Join(repo, g))
		sort.Strings(files)
		for _, f := range files {
			b, err := os.ReadFile(f)
			if err != nil {
				continue
			}
			var e struct {
				Doc struct {
					Schema string   `json:"$schema"`
					Regime string   `json:"$regime"`
					Addons []string `json:"$addons"`
				} `json:"doc"`
			}
			if json.Unmarshal(b, &e) != nil || e.Doc.Schema == "" {
				continue
			}
			t := strings.TrimPrefix(e.Doc.Schema, "https://gobl.org/draft-0/")
			if t == "bill/receipt" {
				continue
			}
			rel, _ := filepath.Rel(repo, f)
			out = append(out, Item{Path: f, Rel: rel, Data: b, Type: t, Regime: e.Doc.Regime, Addons: e.Doc.Addons})
		}
	}
	return out
}

// Invoices filters the golden invoices.
func Invoices() []Item {
	var out []Item
	for _, it := range Golden() {
		if it.Type == "bill/invoice" {
			out = append(out, it)
		}
	}
	return out
}

// Source is an example *input* document as shipped (YAML or JSON), converted
// to JSON. Sources still carry legacy forms that calculation migrates.
type Source struct {
	Rel  string
	JSON []byte
}

// Sources returns the example inputs under examples/*/ (not the out/ folders).
func Sources() []Source {
	var out []Source
	repo := ev.Repo()
	for _, g := range []string{"examples/*/*.yaml", "examples/*/*.json", "regimes/common/examples/*.yaml", "note/examples/*.yaml"} {
		files, _ := filepath.Glob(filepath.Join(repo, g))
		sort.Strings(files)
		for _, f := range files {
			b, err := os.ReadFile(f)
			if err != nil {
				continue
			}
			if strings.HasSuffix(f, ".yaml") {
				if b, err = yaml.YAMLToJSON(b); err != nil {
					continue
				}
			}
			var probe map[string]any
			if json.Unmarshal(b, &probe) != nil || probe["$schema"] == nil {
				continue
			}
			rel, _ := filepath.Rel(repo, f)
			out = append(out, Source{Rel: rel, JSON: b})
		}
	}
	return out
}
