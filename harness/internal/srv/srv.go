// Package srv starts the real `gobl serve` process built from the working tree
// on a loopback port and talks to it at the client boundary.
package srv

import (
	"bufio"
	"bytes"
	"encoding/json"
	"fmt"
	"io"
	"net"
	"net/http"
	"os"
	"os/exec"
	"path/filepath"
	"strings"
	"syscall"
	"time"

	"github.com/invopop/gobl/dsig"
)

// Server is a running gobl serve process.
type Server struct {
	Port    int
	Base    string
	Dir     string
	Key     *dsig.PrivateKey
	cmd     *exec.Cmd
	logPath string
	Client  *http.Client
}

func freePort() (int, error) {
	l, err := net.Listen("tcp", "127.0.0.1:0")
	if err != nil {
		return 0, err
	}
	defer l.Close()
	return l.Addr().(*net.TCPAddr).Port, nil
}

// Start launches bin (a cmd/gobl binary) as `serve`. env are extra environment
// entries (e.g. GORACE=…).
func Start(bin string, env ...string) (*Server, error) {
	dir, err := os.MkdirTemp("", "verif-srv-")
	if err != nil {
		return nil, err
	}
	key := dsig.NewES256Key()
	kb, _ := json.Marshal(key)
	keyFile := filepath.Join(dir, "key.jwk")
	if err := os.WriteFile(keyFile, kb, 0o600); err != nil {
		return nil, err
	}
	var lastErr error
	for attempt := 0; attempt < 5; attempt++ {
		port, err := freePort()
		if err != nil {
			return nil, err
		}
		s := &Server{Port: port, Base: fmt.Sprintf("http://127.0.0.1:%d", port), Dir: dir, Key: key, logPath: filepath.Join(dir, "server.log"),
			Client: &http.Client{Timeout: 120 * time.Second, Transport: &http.Transport{MaxIdleConnsPerHost: 64}}}
		logf, err := os.Create(s.logPath)
		if err != nil {
			return nil, err
		}
		cmd := exec.Command(bin, "serve", "-p", fmt.Sprint(port), "-k", keyFile)
		cmd.Dir = dir
		cmd.Stdout = logf
		cmd.Stderr = logf
		cmd.Env = append(os.Environ(), env...)
		cmd.SysProcAttr = &syscall.SysProcAttr{Setpgid: true}
		if err := cmd.Start(); err != nil {
			logf.Close()
			return nil, err
		}
		logf.Close()
		s.cmd = cmd
		ok := false
		for i := 0; i < 300; i++ {
			time.Sleep(50 * time.Millisecond)
			if s.Alive() {
				ok = true
				break
			}
			if cmd.ProcessState != nil {
				break
			}
		}
		if ok {
			return s, nil
		}
		lastErr = fmt.Errorf("server did not come up on port %d: %s", port, s.Log())
		_ = cmd.Process.Kill()
		_, _ = cmd.Process.Wait()
	}
	os.RemoveAll(dir)
	return nil, lastErr
}

// Alive probes GET /.
func (s *Server) Alive() bool {
	c := &http.Client{Timeout: 3 * time.Second}
	resp, err := c.Get(s.Base + "/")
	if err != nil {
		return false
	}
	io.Copy(io.Discard, resp.Body)
	resp.Body.Close()
	return resp.StatusCode == 200
}

// Post sends a request.
func (s *Server) Post(path string, body []byte, contentType string) (int, []byte, error) {
	req, err := http.NewRequest("POST", s.Base+path, bytes.NewReader(body))
	if err != nil {
		return 0, nil, err
	}
	if contentType != "" {
		req.Header.Set("Content-Type", contentType)
	}
	resp, err := s.Client.Do(req)
	if err != nil {
		return 0, nil, err
	}
	defer resp.Body.Close()
	b, err := io.ReadAll(resp.Body)
	return resp.StatusCode, b, err
}

// PostStream sends a body and returns the response reader (for /bulk).
func (s *Server) PostStream(path string, body io.Reader) (*http.Response, error) {
	req, err := http.NewRequest("POST", s.Base+path, body)
	if err != nil {
		return nil, err
	}
	req.Header.Set("Content-Type", "application/json")
	return s.Client.Do(req)
}

// PostHalfClosed sends the whole request over a plain TCP connection, closes the
// sending half (as `… | nc host port` or shutdown(SHUT_WR) do) and then reads
// the response from the half that stays open.  The caller closes the returned
// response body, which closes the connection.
func (s *Server) PostHalfClosed(path string, body []byte, timeout time.Duration) (*http.Response, error) {
	conn, err := net.DialTimeout("tcp", fmt.Sprintf("127.0.0.1:%d", s.Port), 10*time.Second)
	if err != nil {
		return nil, err
	}
	_ = conn.SetDeadline(time.Now().Add(timeout))
	hdr := fmt.Sprintf("POST %s HTTP/1.1\r\nHost: 127.0.0.1:%d\r\nContent-Type: application/json\r\nContent-Length: %d\r\n\r\n", path, s.Port, len(body))
	if _, err := conn.Write(append([]byte(hdr), body...)); err != nil {
		conn.Close()
		return nil, err
	}
	if tc, ok := conn.(*net.TCPConn); ok {
		_ = tc.CloseWrite()
	}
	resp, err := http.ReadResponse(bufio.NewReader(conn), nil)
	if err != nil {
		conn.Close()
		return nil, err
	}
	resp.Body = &connBody{resp.Body, conn}
	return resp, nil
}

type connBody struct {
	io.ReadCloser
	conn net.Conn
}

func (b *connBody) Close() error {
	_ = b.ReadCloser.Close()
	return b.conn.Close()
}

// Log returns the server's stdout+stderr so far.
func (s *Server) Log() string {
	b, _ := os.ReadFile(s.logPath)
	return string(b)
}

// Crashed reports whether the log shows a panic / fatal error.
func (s *Server) Crashed() (bool, string) {
	l := s.Log()
	for _, m := range []string{"panic:", "fatal error:", "http: panic serving", "[PANIC RECOVER]"} {
		if i := strings.Index(l, m); i >= 0 {
			end := i + 3000
			if end > len(l) {
				end = len(l)
			}
			return true, l[i:end]
		}
	}
	return false, ""
}

// Kill ends the server at once (no graceful shutdown) and removes its directory.
func (s *Server) Kill() {
	if s.cmd != nil && s.cmd.Process != nil {
		_ = s.cmd.Process.Kill()
		_, _ = s.cmd.Process.Wait()
	}
	os.RemoveAll(s.Dir)
}

// Stop terminates the server and removes its directory; returns the log.
func (s *Server) Stop() string {
	if s.cmd != nil && s.cmd.Process != nil {
		_ = s.cmd.Process.Signal(syscall.SIGTERM)
		done := make(chan struct{})
		go func() { _, _ = s.cmd.Process.Wait(); close(done) }()
		select {
		case <-done:
		case <-time.After(5 * time.Second):
			_ = s.cmd.Process.Kill()
			<-done
		}
	}
	log := s.Log()
	os.RemoveAll(s.Dir)
	return log
}
