package taxid

import (
	"math/rand/v2"
	"strings"
)

// ---------------------------------------------------------------------------
// IN — GSTIN: 15 characters

func inFormat(code string) bool {
	if len(code) != 15 {
		return false
	}
	for i := 0; i < 15; i++ {
		c := code[i]
		var ok bool
		switch {
		case i < 2: // state code
			ok = isDigit(c)
		case i < 7: // PAN letters
			ok = isUpper(c)
		case i < 11: // PAN digits
			ok = isDigit(c)
		case i == 11: // PAN check letter
			ok = isUpper(c)
		case i == 12: // entity number
			ok = isAlnum(c) && c != '0'
		case i == 13:
			ok = c == 'Z'
		default:
			ok = isAlnum(c)
		}
		if !ok {
			return false
		}
	}
	return true
}

// inCheck is the mod-36 check character over the first 14 characters.
func inCheck(body string) byte {
	sum := 0
	for i := 0; i < 14; i++ {
		v := strings.IndexByte(alphaAlnum, body[i])
		p := v * (1 + i%2) // factors 1,2,1,2,... from the left
		sum += p/36 + p%36
	}
	return alphaAlnum[(36-sum%36)%36]
}

func schemeIN() Scheme {
	return Scheme{
		Country:   "IN",
		HasFormat: inFormat,
		Valid: func(code string) bool {
			return inFormat(code) && inCheck(code[:14]) == code[14]
		},
		GenValid: func(r *rand.Rand) string {
			body := twoDigits(1+r.IntN(37)) +
				randFrom(r, alphaUpper, 5) + randFrom(r, alphaDigits, 4) + randFrom(r, alphaUpper, 1) +
				randFrom(r, alphaAlnum[1:], 1) + "Z"
			return body + string(inCheck(body))
		},
		GenRandom: func(r *rand.Rand) string {
			return randFrom(r, alphaDigits, 2) + randFrom(r, alphaUpper, 5) + randFrom(r, alphaDigits, 4) +
				randFrom(r, alphaUpper, 1) + randFrom(r, alphaAlnum[1:], 1) + "Z" + randFrom(r, alphaAlnum, 1)
		},
		Note: "IN GSTIN: 2-digit state code + 10-character PAN (5 letters, 4 digits, 1 letter) + entity character 1-9/A-Z + " +
			"'Z' + check character. Check: characters valued 0-9,A-Z = 0..35; factors 1,2,1,2,... from the left over the " +
			"first 14 characters; each product p contributes p div 36 + p mod 36; check = (36 - sum mod 36) mod 36, " +
			"written in the same alphabet. The state code value is not range-checked by HasFormat; GenValid draws " +
			"01..37. Follows the GSTN description of the GSTIN checksum.",
	}
}

// ---------------------------------------------------------------------------
// IT — Partita IVA: 11 digits, Luhn

func itFormat(code string) bool { return len(code) == 11 && allDigits(code) }

func schemeIT() Scheme {
	return Scheme{
		Country:   "IT",
		HasFormat: itFormat,
		Valid:     func(code string) bool { return itFormat(code) && LuhnOK(code) },
		GenValid: func(r *rand.Rand) string {
			d := randDigits(r, 10)
			return toStr(d) + toStr([]int{luhnCheck(d)})
		},
		GenRandom: func(r *rand.Rand) string { return randFrom(r, alphaDigits, 11) },
		Note: "IT Partita IVA: 11 digits passing the Luhn test (digits in even positions counted from the left doubled " +
			"with digit sum; total divisible by 10). The 16-character codice fiscale is a different identity and is " +
			"not part of this scheme (HasFormat false). Office-code ranges (digits 8-10) are not enforced; " +
			"00000000000 satisfies the arithmetic. Follows the Agenzia delle Entrate description.",
	}
}

// ---------------------------------------------------------------------------
// NL — btw-identificatienummer: 9 digits + "B" + 2 digits

var nlWeights = []int{9, 8, 7, 6, 5, 4, 3, 2}

func nlFormat(code string) bool {
	return len(code) == 12 && allDigits(code[:9]) && code[9] == 'B' && allDigits(code[10:])
}

func nlEleven(d []int) bool {
	r := dot(d, nlWeights) % 11
	return r != 10 && r == d[8]
}

// nlMod97 applies the ISO 7064 MOD 97-10 test to "NL" + code with letters
// expanded to two-digit numbers (A=10 .. Z=35).
func nlMod97(code string) bool {
	var sb strings.Builder
	for _, c := range []byte("NL" + code) {
		if isDigit(c) {
			sb.WriteByte(c)
		} else {
			sb.WriteString(twoDigits(int(c-'A') + 10))
		}
	}
	return modStr(sb.String(), 97) == 1
}

func schemeNL() Scheme {
	return Scheme{
		Country:   "NL",
		HasFormat: nlFormat,
		Valid: func(code string) bool {
			if !nlFormat(code) {
				return false
			}
			return nlEleven(digitsOf(code[:9])) || nlMod97(code)
		},
		GenValid: func(r *rand.Rand) string {
			if r.IntN(2) == 0 { // eleven-test number (legal entities, RSIN based)
				for {
					d := randDigits(r, 8)
					c := dot(d, nlWeights) % 11
					if c == 10 {
						continue
					}
					return toStr(d) + toStr([]int{c}) + "B" + twoDigits(1+r.IntN(99))
				}
			}
			// mod-97 number (sole proprietors since 2020)
			for {
				body := toStr(randDigits(r, 9)) + "B"
				var sols []string
				for n := 0; n < 100; n++ {
					if c := body + twoDigits(n); nlMod97(c) {
						sols = append(sols, c)
					}
				}
				if len(sols) > 0 {
					return sols[r.IntN(len(sols))]
				}
			}
		},
		GenRandom: func(r *rand.Rand) string {
			return randFrom(r, alphaDigits, 9) + "B" + randFrom(r, alphaDigits, 2)
		},
		Note: "NL btw-id: 9 digits + 'B' + 2 digits. Valid when EITHER the eleven-test holds on the 9 digits (sum of " +
			"digit[i]*(9-i) for i = 0..7, r = sum mod 11, r != 10 and r = 9th digit) OR the mod-97 test holds on the full " +
			"number ('NL' + code, letters replaced by 10..35, integer mod 97 = 1). The second rule is the one the " +
			"Belastingdienst introduced for the btw-id of sole proprietors in 2020. The two-digit suffix is not " +
			"range-checked. Follows the Belastingdienst description as reproduced in the EU VIES algorithm notes.",
	}
}

// ---------------------------------------------------------------------------
// PL — NIP: 10 digits

var plWeights = []int{6, 5, 7, 2, 3, 4, 5, 6, 7}

func plFormat(code string) bool { return len(code) == 10 && allDigits(code) }

func schemePL() Scheme {
	return Scheme{
		Country:   "PL",
		HasFormat: plFormat,
		Valid: func(code string) bool {
			if !plFormat(code) {
				return false
			}
			d := digitsOf(code)
			r := dot(d, plWeights) % 11
			return r != 10 && r == d[9]
		},
		GenValid: func(r *rand.Rand) string {
			for {
				d := randDigits(r, 9)
				// tax-office prefix: keep the first three digits non-zero so the
				// code is acceptable under the strictest reading of the prefix rule
				for i := 0; i < 3; i++ {
					d[i] = 1 + r.IntN(9)
				}
				c := dot(d, plWeights) % 11
				if c == 10 {
					continue
				}
				return toStr(d) + toStr([]int{c})
			}
		},
		GenRandom: func(r *rand.Rand) string { return randFrom(r, alphaDigits, 10) },
		Note: "PL NIP: 10 digits; weights 6,5,7,2,3,4,5,6,7 over the first 9; sum mod 11 must equal the 10th digit; a " +
			"remainder of 10 is never issued. The first three digits are a tax-office prefix; descriptions differ on " +
			"which prefixes exist (originally none of the three digits was 0), so HasFormat does not constrain them and " +
			"GenValid only draws prefixes without zeros. Follows the Ministry of Finance description of the NIP.",
	}
}

// ---------------------------------------------------------------------------
// PT — NIF: 9 digits

var ptWeights = []int{9, 8, 7, 6, 5, 4, 3, 2}

var ptPrefixes = []string{
	"1", "2", "3", // natural persons
	"45",             // non-resident natural persons
	"5",              // legal persons
	"6",              // public administration
	"70", "74", "75", // undivided inheritances
	"71",       // non-resident collective entities
	"72",       // investment funds
	"77",       // officially attributed
	"78",       // non-residents under VAT refund procedures
	"79",       // exceptional regime
	"8",        // sole traders (obsolete)
	"90", "91", // condominiums, irregular companies
	"98", // non-residents without permanent establishment
	"99", // civil societies without legal personality
}

func ptPrefixOK(code string) bool {
	for _, p := range ptPrefixes {
		if strings.HasPrefix(code, p) {
			return true
		}
	}
	return false
}

func ptCheck(d []int) int {
	r := dot(d, ptWeights) % 11
	if r < 2 {
		return 0
	}
	return 11 - r
}

func ptFormat(code string) bool { return len(code) == 9 && allDigits(code) && ptPrefixOK(code) }

func schemePT() Scheme {
	return Scheme{
		Country:   "PT",
		HasFormat: ptFormat,
		Valid: func(code string) bool {
			if !ptFormat(code) {
				return false
			}
			d := digitsOf(code)
			return ptCheck(d) == d[8]
		},
		GenValid: func(r *rand.Rand) string {
			p := ptPrefixes[r.IntN(len(ptPrefixes))]
			body := p + toStr(randDigits(r, 8-len(p)))
			return body + toStr([]int{ptCheck(digitsOf(body))})
		},
		GenRandom: func(r *rand.Rand) string {
			p := ptPrefixes[r.IntN(len(ptPrefixes))]
			return p + toStr(randDigits(r, 9-len(p)))
		},
		Note: "PT NIF: 9 digits; weights 9,8,7,6,5,4,3,2 over the first 8; r = sum mod 11; check = 0 when r < 2, otherwise " +
			"11 - r. The leading digit(s) must be an allocated prefix: 1, 2, 3, 45, 5, 6, 70, 71, 72, 74, 75, 77, 78, 79, " +
			"8, 90, 91, 98, 99 (the commonly published table; 4x other than 45, 73, 76 and 92-97 are unallocated). The " +
			"prefix belongs to the FORMAT here, so HasFormat is false for unallocated prefixes. Follows Decreto-Lei " +
			"14/2013 and the AT prefix table as commonly published.",
	}
}

// ---------------------------------------------------------------------------
// AE — TRN: 15 digits, format only

func aeFormat(code string) bool { return len(code) == 15 && allDigits(code) }

func schemeAE() Scheme {
	return Scheme{
		Country:    "AE",
		FormatOnly: true,
		HasFormat:  aeFormat,
		Valid:      aeFormat,
		GenValid:   func(r *rand.Rand) string { return "1" + randFrom(r, alphaDigits, 14) },
		GenRandom:  func(r *rand.Rand) string { return randFrom(r, alphaDigits, 15) },
		Note: "AE TRN: 15 digits; no public check-digit algorithm, format only. Issued TRNs start with 100, which is " +
			"not enforced; GenValid starts codes with 1.",
	}
}

// ---------------------------------------------------------------------------
// MX — RFC: 12 (company) or 13 (person) characters, format only

const mxLetters = alphaUpper + "&Ñ"

func mxFormat(code string) bool {
	rs := []rune(code)
	var nl int
	switch len(rs) {
	case 12:
		nl = 3
	case 13:
		nl = 4
	default:
		return false
	}
	for i, c := range rs {
		switch {
		case i < nl:
			if !strings.ContainsRune(mxLetters, c) {
				return false
			}
		case i < nl+6:
			if c < '0' || c > '9' {
				return false
			}
		default:
			if !(c >= '0' && c <= '9') && !(c >= 'A' && c <= 'Z') {
				return false
			}
		}
	}
	return true
}

func mxLettersGen(r *rand.Rand, n int) string {
	out := make([]rune, n)
	for i := range out {
		switch r.IntN(50) {
		case 0:
			out[i] = '&'
		case 1:
			out[i] = 'Ñ'
		default:
			out[i] = rune(alphaUpper[r.IntN(26)])
		}
	}
	return string(out)
}

func schemeMX() Scheme {
	return Scheme{
		Country:    "MX",
		FormatOnly: true,
		HasFormat:  mxFormat,
		Valid:      mxFormat,
		GenValid: func(r *rand.Rand) string {
			n := 3 + r.IntN(2)
			date := twoDigits(r.IntN(100)) + twoDigits(1+r.IntN(12)) + twoDigits(1+r.IntN(28))
			return mxLettersGen(r, n) + date + randFrom(r, alphaAlnum, 3)
		},
		GenRandom: func(r *rand.Rand) string {
			n := 3 + r.IntN(2)
			return mxLettersGen(r, n) + randFrom(r, alphaDigits, 6) + randFrom(r, alphaAlnum, 3)
		},
		Note: "MX RFC: company = 3 letters (A-Z, & and Ñ) + 6-digit date YYMMDD + 3 alphanumeric homoclave characters " +
			"(12 characters); person = 4 letters + date + homoclave (13 characters). Format only: neither the calendar " +
			"validity of the date nor the SAT homoclave check digit is verified. Lengths are counted in characters " +
			"(Ñ is one character). GenValid draws calendar-valid dates and uses & and Ñ with about 2% probability each.",
	}
}
