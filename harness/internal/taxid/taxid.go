// Package taxid is an independent reference oracle for the check-digit rules
// of national tax identity codes (VAT numbers). Every algorithm here is written
// from the published national descriptions, in a table-driven style (weights
// over digit arrays, closed-form sums), and shares no code with the library
// under test.
package taxid

import (
	"math/rand/v2"
	"strings"
)

// Scheme is the national rule for the tax identity code of one country.
// Codes are given in normalised form: upper case, no separators/spaces, and
// WITHOUT the country prefix.
type Scheme struct {
	Country    string                    // country code as used by gobl's tax_id.country
	FormatOnly bool                      // true when only the format is verified (AE, MX)
	Valid      func(code string) bool    // national format AND check digit/letter agree
	HasFormat  func(code string) bool    // national format regardless of check digit
	GenValid   func(r *rand.Rand) string // random VALID code covering every sub-type
	GenRandom  func(r *rand.Rand) string // random string of national alphabet/length
	Note       string                    // the algorithm as implemented and its source
}

var all = []Scheme{
	schemeAT(), schemeBE(), schemeBR(), schemeCH(), schemeCO(), schemeDE(),
	schemeES(), schemeFR(), schemeGB(), schemeEL(),
	schemeIN(), schemeIT(), schemeNL(), schemePL(), schemePT(),
	schemeAE(), schemeMX(),
}

// Schemes returns all national schemes known to the oracle.
func Schemes() []Scheme {
	out := make([]Scheme, len(all))
	copy(out, all)
	return out
}

// ByCountry returns the scheme for a country code, or nil. "GR" is accepted as
// an alias of "EL".
func ByCountry(cc string) *Scheme {
	cc = strings.ToUpper(cc)
	if cc == "GR" {
		cc = "EL"
	}
	for i := range all {
		if all[i].Country == cc {
			s := all[i]
			return &s
		}
	}
	return nil
}

// ---------------------------------------------------------------------------
// digit helpers

func isDigit(c byte) bool { return c >= '0' && c <= '9' }
func isUpper(c byte) bool { return c >= 'A' && c <= 'Z' }
func isAlnum(c byte) bool { return isDigit(c) || isUpper(c) }
func allDigits(s string) bool {
	if s == "" {
		return false
	}
	for i := 0; i < len(s); i++ {
		if !isDigit(s[i]) {
			return false
		}
	}
	return true
}

// digitsOf converts an all-digit string to its digit array.
func digitsOf(s string) []int {
	d := make([]int, len(s))
	for i := 0; i < len(s); i++ {
		d[i] = int(s[i] - '0')
	}
	return d
}

// dot is the weighted sum of the first len(w) digits of d.
func dot(d []int, w []int) int {
	sum := 0
	for i, wi := range w {
		sum += d[i] * wi
	}
	return sum
}

// digitSum is the sum of the decimal digits of a non-negative n.
func digitSum(n int) int {
	s := 0
	for n > 0 {
		s += n % 10
		n /= 10
	}
	return s
}

// modStr is the remainder of the decimal number written in s modulo m.
func modStr(s string, m int) int {
	r := 0
	for i := 0; i < len(s); i++ {
		r = (r*10 + int(s[i]-'0')) % m
	}
	return r
}

func toStr(d []int) string {
	b := make([]byte, len(d))
	for i, v := range d {
		b[i] = byte('0' + v)
	}
	return string(b)
}

func randDigits(r *rand.Rand, n int) []int {
	d := make([]int, n)
	for i := range d {
		d[i] = r.IntN(10)
	}
	return d
}

func randFrom(r *rand.Rand, alphabet string, n int) string {
	rs := []rune(alphabet)
	out := make([]rune, n)
	for i := range out {
		out[i] = rs[r.IntN(len(rs))]
	}
	return string(out)
}

func twoDigits(n int) string {
	return string([]byte{byte('0' + n/10%10), byte('0' + n%10)})
}

const (
	alphaDigits = "0123456789"
	alphaUpper  = "ABCDEFGHIJKLMNOPQRSTUVWXYZ"
	alphaAlnum  = alphaDigits + alphaUpper
)

// LuhnOK reports whether an all-digit string passes the Luhn (mod 10) test:
// from the right, every second digit is doubled and replaced by its digit sum;
// the total must be divisible by 10.
func LuhnOK(digits string) bool {
	if !allDigits(digits) {
		return false
	}
	sum := 0
	n := len(digits)
	for i := 0; i < n; i++ {
		v := int(digits[n-1-i] - '0')
		if i%2 == 1 {
			v = digitSum(2 * v)
		}
		sum += v
	}
	return sum%10 == 0
}

// luhnCheck returns the digit that appended to body makes it pass LuhnOK.
func luhnCheck(body []int) int {
	sum := 0
	n := len(body)
	for i := 0; i < n; i++ {
		v := body[n-1-i]
		if i%2 == 0 { // the rightmost body digit is doubled once a check digit follows
			v = digitSum(2 * v)
		}
		sum += v
	}
	return (10 - sum%10) % 10
}

// ---------------------------------------------------------------------------
// error models

// SingleDigitEdits returns every string obtained from code by substituting one
// digit character by a different digit at the same position.
func SingleDigitEdits(code string) []string {
	var out []string
	b := []byte(code)
	for i := 0; i < len(b); i++ {
		if !isDigit(b[i]) {
			continue
		}
		orig := b[i]
		for c := byte('0'); c <= '9'; c++ {
			if c == orig {
				continue
			}
			b[i] = c
			out = append(out, string(b))
		}
		b[i] = orig
	}
	return out
}

// AdjacentTranspositions returns every string obtained from code by swapping
// two adjacent, different characters.
func AdjacentTranspositions(code string) []string {
	var out []string
	rs := []rune(code)
	for i := 0; i+1 < len(rs); i++ {
		if rs[i] == rs[i+1] {
			continue
		}
		rs[i], rs[i+1] = rs[i+1], rs[i]
		out = append(out, string(rs))
		rs[i], rs[i+1] = rs[i+1], rs[i]
	}
	return out
}
