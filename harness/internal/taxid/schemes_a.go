package taxid

import "math/rand/v2"

// ---------------------------------------------------------------------------
// AT — Umsatzsteuer-Identifikationsnummer: "U" + 8 digits

var atWeights = []int{1, 2, 1, 2, 1, 2, 1}

func atCheck(d []int) int {
	sum := 0
	for i, w := range atWeights {
		sum += digitSum(d[i] * w)
	}
	return (10 - (sum+4)%10) % 10
}

func atFormat(code string) bool {
	return len(code) == 9 && code[0] == 'U' && allDigits(code[1:])
}

func schemeAT() Scheme {
	return Scheme{
		Country:   "AT",
		HasFormat: atFormat,
		Valid: func(code string) bool {
			if !atFormat(code) {
				return false
			}
			d := digitsOf(code[1:])
			return atCheck(d) == d[7]
		},
		GenValid: func(r *rand.Rand) string {
			d := randDigits(r, 7)
			return "U" + toStr(d) + toStr([]int{atCheck(d)})
		},
		GenRandom: func(r *rand.Rand) string { return "U" + randFrom(r, alphaDigits, 8) },
		Note: "AT UID: 'U' followed by 8 digits C1..C8. Weights 1,2,1,2,1,2,1 over C1..C7, " +
			"each product replaced by its digit sum; C8 = (10 - (sum + 4) mod 10) mod 10. " +
			"Follows the BMF description of the UID check (as reproduced in the EU VIES algorithm notes).",
	}
}

// ---------------------------------------------------------------------------
// BE — ondernemingsnummer / numéro d'entreprise: 10 digits, mod 97

func beCanon(code string) (string, bool) {
	if !allDigits(code) {
		return "", false
	}
	switch len(code) {
	case 10:
		if code[0] != '0' && code[0] != '1' {
			return "", false
		}
		return code, true
	case 9: // pre-2005 nine-digit number, nowadays written with a leading 0
		return "0" + code, true
	}
	return "", false
}

func beCheck(body string) int { return 97 - modStr(body, 97) }

func schemeBE() Scheme {
	return Scheme{
		Country: "BE",
		HasFormat: func(code string) bool {
			_, ok := beCanon(code)
			return ok
		},
		Valid: func(code string) bool {
			c, ok := beCanon(code)
			if !ok {
				return false
			}
			return twoDigits(beCheck(c[:8])) == c[8:]
		},
		GenValid: func(r *rand.Rand) string {
			body := toStr(randDigits(r, 8))
			lead := byte('0' + r.IntN(2))
			// a 0-prefixed number keeps a non-zero second digit so that it is a
			// genuine former 9-digit number
			b := []byte(body)
			b[0] = lead
			if lead == '0' && b[1] == '0' {
				b[1] = byte('1' + r.IntN(9))
			}
			body = string(b)
			return body + twoDigits(beCheck(body))
		},
		GenRandom: func(r *rand.Rand) string {
			return string([]byte{byte('0' + r.IntN(2))}) + randFrom(r, alphaDigits, 9)
		},
		Note: "BE enterprise number: 10 digits whose first digit is 0 or 1; the last two digits equal " +
			"97 - (first eight digits mod 97), giving 01..97. A 9-digit code is read as the old-style number " +
			"and checked after prefixing 0. Follows the KBO/BCE description of the enterprise number. " +
			"No further range constraints are enforced.",
	}
}

// ---------------------------------------------------------------------------
// BR — CNPJ: 14 digits with two mod-11 check digits

var (
	brW1 = []int{5, 4, 3, 2, 9, 8, 7, 6, 5, 4, 3, 2}
	brW2 = []int{6, 5, 4, 3, 2, 9, 8, 7, 6, 5, 4, 3, 2}
)

func brDV(d []int, w []int) int {
	r := dot(d, w) % 11
	if r < 2 {
		return 0
	}
	return 11 - r
}

func brFormat(code string) bool { return len(code) == 14 && allDigits(code) }

func schemeBR() Scheme {
	return Scheme{
		Country:   "BR",
		HasFormat: brFormat,
		Valid: func(code string) bool {
			if !brFormat(code) {
				return false
			}
			d := digitsOf(code)
			return brDV(d, brW1) == d[12] && brDV(d, brW2) == d[13]
		},
		GenValid: func(r *rand.Rand) string {
			d := randDigits(r, 12)
			d = append(d, brDV(d, brW1))
			d = append(d, brDV(d, brW2))
			return toStr(d)
		},
		GenRandom: func(r *rand.Rand) string { return randFrom(r, alphaDigits, 14) },
		Note: "BR CNPJ: 14 digits. DV1 over digits 1-12 with weights 5,4,3,2,9,8,7,6,5,4,3,2; DV2 over digits 1-13 " +
			"with weights 6,5,4,3,2,9,8,7,6,5,4,3,2; each DV = 0 when (sum mod 11) < 2, otherwise 11 - (sum mod 11). " +
			"Follows the Receita Federal description of the numeric CNPJ; the alphanumeric CNPJ announced for 2026 " +
			"is not covered. Repeated-digit numbers (e.g. all zeros) are not specially rejected.",
	}
}

// ---------------------------------------------------------------------------
// CH — UID (CHE-xxx.xxx.xxx), stored as "E" + 9 digits

var chWeights = []int{5, 4, 3, 2, 7, 6, 5, 4}

// chCheck returns the check digit, or 10 when the 8-digit body cannot be issued.
func chCheck(d []int) int { return (11 - dot(d, chWeights)%11) % 11 }

func chFormat(code string) bool {
	return len(code) == 10 && code[0] == 'E' && allDigits(code[1:])
}

func schemeCH() Scheme {
	return Scheme{
		Country:   "CH",
		HasFormat: chFormat,
		Valid: func(code string) bool {
			if !chFormat(code) {
				return false
			}
			d := digitsOf(code[1:])
			c := chCheck(d)
			return c != 10 && c == d[8]
		},
		GenValid: func(r *rand.Rand) string {
			for {
				d := randDigits(r, 8)
				c := chCheck(d)
				if c == 10 {
					continue
				}
				return "E" + toStr(d) + toStr([]int{c})
			}
		},
		GenRandom: func(r *rand.Rand) string { return "E" + randFrom(r, alphaDigits, 9) },
		Note: "CH UID: 'E' (the last letter of the CHE prefix, as gobl stores it) followed by 9 digits. Weights " +
			"5,4,3,2,7,6,5,4 over the first 8 digits; check = (11 - sum mod 11) mod 11; a result of 10 means the " +
			"body is never issued and the code is invalid. Follows the BFS/OFS UID specification (eCH-0097).",
	}
}

// ---------------------------------------------------------------------------
// CO — NIT with dígito de verificación

var coWeights = []int{3, 7, 13, 17, 19, 23, 29, 37, 41, 43, 47, 53, 59, 67, 71}

const (
	coMinLen = 7  // 6-digit body + DV
	coMaxLen = 11 // 10-digit body (cédula-based NIT) + DV
)

func coCheck(body []int) int {
	sum := 0
	n := len(body)
	for i := 0; i < n; i++ {
		sum += body[n-1-i] * coWeights[i]
	}
	r := sum % 11
	if r < 2 {
		return r
	}
	return 11 - r
}

func coFormat(code string) bool {
	return len(code) >= coMinLen && len(code) <= coMaxLen && allDigits(code)
}

func schemeCO() Scheme {
	return Scheme{
		Country:   "CO",
		HasFormat: coFormat,
		Valid: func(code string) bool {
			if !coFormat(code) {
				return false
			}
			d := digitsOf(code)
			n := len(d)
			return coCheck(d[:n-1]) == d[n-1]
		},
		GenValid: func(r *rand.Rand) string {
			// body lengths 8 and 9 (the lengths in current issue) with an
			// occasional 7-digit body; first digit non-zero
			n := 8 + r.IntN(2)
			if r.IntN(10) == 0 {
				n = 7
			}
			d := randDigits(r, n)
			d[0] = 1 + r.IntN(9)
			return toStr(d) + toStr([]int{coCheck(d)})
		},
		GenRandom: func(r *rand.Rand) string { return randFrom(r, alphaDigits, 9+r.IntN(2)) },
		Note: "CO NIT: digits only, the last digit is the DV. Weights 3,7,13,17,19,23,29,37,41,43,47,53,59,67,71 applied " +
			"from the rightmost body digit leftwards; r = sum mod 11; DV = r when r < 2, otherwise 11 - r. Follows " +
			"the DIAN description (Orden Administrativa 4 de 1989). The algorithm is length-agnostic; HasFormat " +
			"admits 7..11 digits in total (6..10 digit body + DV), GenValid draws total lengths 8, 9 and 10 only.",
	}
}

// ---------------------------------------------------------------------------
// DE — USt-IdNr: 9 digits, ISO 7064 MOD 11,10

func deCheck(d []int) int {
	product := 10
	for i := 0; i < 8; i++ {
		sum := (d[i] + product) % 10
		if sum == 0 {
			sum = 10
		}
		product = (2 * sum) % 11
	}
	c := 11 - product
	if c == 10 {
		c = 0
	}
	return c
}

func deFormat(code string) bool {
	return len(code) == 9 && allDigits(code) && code[0] != '0'
}

func schemeDE() Scheme {
	return Scheme{
		Country:   "DE",
		HasFormat: deFormat,
		Valid: func(code string) bool {
			if !deFormat(code) {
				return false
			}
			d := digitsOf(code)
			return deCheck(d) == d[8]
		},
		GenValid: func(r *rand.Rand) string {
			d := randDigits(r, 8)
			d[0] = 1 + r.IntN(9)
			return toStr(d) + toStr([]int{deCheck(d)})
		},
		GenRandom: func(r *rand.Rand) string {
			return string([]byte{byte('1' + r.IntN(9))}) + randFrom(r, alphaDigits, 8)
		},
		Note: "DE USt-IdNr: 9 digits, first digit not 0. ISO 7064 MOD 11,10: product = 10; for each of the first 8 " +
			"digits: sum = (digit + product) mod 10, 0 read as 10; product = (2*sum) mod 11; check = 11 - product, " +
			"10 written as 0. Follows the BZSt description of the USt-IdNr check digit.",
	}
}
