package taxid

import (
	"math/rand/v2"
	"testing"
)

// Example codes harvested from the gobl regimes/<cc>/*_test.go files.
var examples = map[string]struct {
	valid    []string // accepted by gobl's tests
	badCheck []string // rejected by gobl's tests for a check digit mismatch
	badForm  []string // rejected by gobl's tests for their format
}{
	"AT": {
		valid:    []string{"U00000033", "U38516405", "U64727905"},
		badCheck: []string{"U00000000", "U10223001"},
		badForm:  []string{"U12345678910", "U1234567890123", "U123456", "U-385.16.405"},
	},
	"BE": {
		valid:    []string{"0413172884", "0414445663", "0897223571", "897222383", "897231984"},
		badCheck: []string{"0413172885"},
		badForm:  []string{"82238333", "01234567890123", "0123456", "0.413.172-884"},
	},
	"BR": {
		valid:    []string{"05104582000170", "10909402000167"},
		badCheck: []string{"05104582000160", "05104582000171"},
		badForm:  []string{"123456789012345", "1234567890123", "A2345678901234", "123456789012AB"},
	},
	"CH": {
		valid:    []string{"E100416306", "E284156502", "E432825998", "E115400550", "E424414541", "E123456788"},
		badCheck: []string{"E000000001", "E116276851", "E100426306"},
		badForm:  []string{"E12345678910", "E1234567890123", "E123456", "E-385.16.405"},
	},
	"CO": {
		valid:    []string{"412615332", "8110079918", "124499654", "8300801501", "700602703", "9014586527", "8001345363"},
		badCheck: []string{"412615331"},
		badForm:  []string{"123456789100", "123456", "12.449.965-4"},
	},
	"DE": {
		valid:    []string{"111111125", "160459932", "282741168", "813495425"},
		badCheck: []string{"999999991"},
		badForm:  []string{"000000000", "011111112", "12345678910", "1234567890123", "123456", "12.449.965-4"},
	},
	"ES": {
		valid: []string{
			"93471790C", "43596386R", "00000010X",
			"X5102754C", "Z8327649K", "Y4174455S",
			"A58818501", "B65410011", "V7565938C", "V75659383", "F0605378I", "Q2238877A", "D40022956",
			"K9514336H",
		},
		badCheck: []string{
			"93471790A", "00000000A", "X5102755C",
			"A5881850B", "B65410010", "V75659382", "V7565938B", "F06053787", "Q22388770", "D4002295J",
			"K95143363",
		},
		badForm: []string{"0111111C", "X111111C", "B0111111"},
	},
	"FR": {
		valid:    []string{"39356000000", "44732829320", "44391838042"},
		badCheck: []string{"44999999991"},
		badForm:  []string{"44123456789100", "123456", "12.449.965-4", "INVALID"},
	},
	"GB": {
		valid:    []string{"000472631", "844281425", "350983637", "100000132", "GD103", "HA503", "350983637001", "350983637002"},
		badCheck: []string{"999999991"},
		badForm:  []string{"12345678910", "1234567890123", "123456", "12.449.965-4"},
	},
	"EL": {
		valid:    []string{"064677095", "925667500", "320806520", "691063615"},
		badCheck: []string{"925667503"},
		badForm:  []string{"1234567890123", "123456", "12345678A"},
	},
	"IN": {
		valid:    []string{"27AAPFU0939F1ZV", "29AAGCB7383J1Z4", "10AABCU9355J1Z9", "09AABCU9355J1ZS"},
		badCheck: []string{"27AAPFU0939F1Z0"},
		badForm:  []string{"27AAPFU0939F", "AAAPFU0939F1ZV", "27AAPFU0939F1ZV12"},
	},
	"IT": {
		valid:    []string{"12345678903", "13029381004", "10182640150"},
		badCheck: []string{"12345678901", "13029381009"},
		badForm:  []string{"123456789001", "1234567890", "12.449.965-439", "A764352056Z"},
	},
	"NL": {
		valid:    []string{"000099998B57", "808661863B01"},
		badCheck: []string{"123456789B12"},
		badForm:  []string{"shorty", "000099995b57", "000099998X57", "000099998B5a"},
	},
	"PL": {
		valid:    []string{"9551893317", "1132191233", "5841896486", "7010009325"},
		badCheck: []string{"9551893318", "1002191233"},
		badForm:  []string{"12345678910", "1234567890123", "123456", "12.449.965-4"},
	},
	"PT": {
		valid:    []string{"999999990", "287024008", "501442600"},
		badCheck: []string{"999999991"},
		badForm:  []string{"420000000", "123456789100", "123456", "12.449.965-4"},
	},
	"AE": {
		valid:   []string{"123456789012345", "187654321098765", "100111222333444"},
		badForm: []string{"12345678901234", "1234567890123456", "12345678ABCD345", "1234-5678-9012-345"},
	},
	"MX": {
		valid:   []string{"MNOP8201019HJ", "UVWX610715JKL", "STU760612MN1", "K&A010301I16", "GHI70123123Z", "ABC830720XYZ"},
		badForm: []string{"STU760612MN", "XXXX"},
	},
}

func TestSchemesComplete(t *testing.T) {
	want := []string{"AT", "BE", "BR", "CH", "CO", "DE", "ES", "FR", "GB", "EL", "IN", "IT", "NL", "PL", "PT", "AE", "MX"}
	if len(Schemes()) != len(want) {
		t.Fatalf("got %d schemes, want %d", len(Schemes()), len(want))
	}
	for _, cc := range want {
		s := ByCountry(cc)
		if s == nil {
			t.Fatalf("no scheme for %s", cc)
		}
		if s.Valid == nil || s.HasFormat == nil || s.GenValid == nil || s.GenRandom == nil || s.Note == "" {
			t.Errorf("%s: incomplete scheme", cc)
		}
		if s.FormatOnly != (cc == "AE" || cc == "MX") {
			t.Errorf("%s: FormatOnly = %v", cc, s.FormatOnly)
		}
		if _, ok := examples[cc]; !ok {
			t.Errorf("%s: no examples", cc)
		}
	}
	if ByCountry("GR") == nil || ByCountry("GR").Country != "EL" {
		t.Errorf("GR alias")
	}
	if ByCountry("ZZ") != nil {
		t.Errorf("ZZ should be unknown")
	}
}

func TestGenValid(t *testing.T) {
	for _, s := range Schemes() {
		t.Run(s.Country, func(t *testing.T) {
			r := rand.New(rand.NewPCG(1, 2))
			seen := map[int]int{}
			for i := 0; i < 10000; i++ {
				c := s.GenValid(r)
				seen[len([]rune(c))]++
				if !s.HasFormat(c) {
					t.Fatalf("GenValid produced %q without format", c)
				}
				if !s.Valid(c) {
					t.Fatalf("GenValid produced %q which is not Valid", c)
				}
			}
			t.Logf("lengths: %v", seen)
		})
	}
}

func TestExamples(t *testing.T) {
	for _, s := range Schemes() {
		ex := examples[s.Country]
		t.Run(s.Country, func(t *testing.T) {
			for _, c := range ex.valid {
				if !s.HasFormat(c) {
					t.Errorf("known valid %q: HasFormat false", c)
				}
				if !s.Valid(c) {
					t.Errorf("known valid %q: Valid false", c)
				}
			}
			for _, c := range ex.badCheck {
				if s.Valid(c) {
					t.Errorf("known bad check %q: Valid true", c)
				}
				if !s.HasFormat(c) {
					t.Errorf("known bad check %q: HasFormat false", c)
				}
			}
			for _, c := range ex.badForm {
				if s.Valid(c) {
					t.Errorf("known bad format %q: Valid true", c)
				}
				if s.HasFormat(c) {
					t.Errorf("known bad format %q: HasFormat true", c)
				}
			}
		})
	}
}

func TestGenRandom(t *testing.T) {
	for _, s := range Schemes() {
		t.Run(s.Country, func(t *testing.T) {
			r := rand.New(rand.NewPCG(3, 4))
			const n = 10000
			format, valid := 0, 0
			for i := 0; i < n; i++ {
				c := s.GenRandom(r)
				if s.HasFormat(c) {
					format++
				}
				if s.Valid(c) {
					valid++
					if !s.HasFormat(c) {
						t.Fatalf("%q Valid without HasFormat", c)
					}
				}
			}
			t.Logf("format %d/%d valid %d/%d", format, n, valid, n)
			if format < n*8/10 {
				t.Errorf("GenRandom satisfies HasFormat only %d/%d", format, n)
			}
			if !s.FormatOnly && valid > n/2 {
				t.Errorf("GenRandom too often valid: %d/%d", valid, n)
			}
		})
	}
}

// Every single-digit substitution in a check-digit protected position must be
// detected by schemes whose check is a bijection per position.
func TestSingleDigitDetection(t *testing.T) {
	// schemes whose algorithm detects ALL single digit errors
	full := map[string]bool{"AT": true, "BE": true, "DE": true, "IT": true, "PL": true, "CH": true, "IN": true}
	for _, s := range Schemes() {
		if !full[s.Country] {
			continue
		}
		t.Run(s.Country, func(t *testing.T) {
			r := rand.New(rand.NewPCG(5, 6))
			for i := 0; i < 500; i++ {
				c := s.GenValid(r)
				for _, e := range SingleDigitEdits(c) {
					if s.HasFormat(e) && s.Valid(e) {
						t.Fatalf("%q -> %q still valid", c, e)
					}
				}
			}
		})
	}
}

func TestEdits(t *testing.T) {
	e := SingleDigitEdits("A1B2")
	if len(e) != 18 {
		t.Fatalf("SingleDigitEdits: %d", len(e))
	}
	for _, s := range e {
		if len(s) != 4 || s[0] != 'A' || s[2] != 'B' || s == "A1B2" {
			t.Errorf("bad edit %q", s)
		}
	}
	tr := AdjacentTranspositions("1123")
	want := []string{"1213", "1132"}
	if len(tr) != len(want) {
		t.Fatalf("AdjacentTranspositions: %v", tr)
	}
	for i := range want {
		if tr[i] != want[i] {
			t.Errorf("transposition %d: %q want %q", i, tr[i], want[i])
		}
	}
	if got := AdjacentTranspositions("ÑA1"); len(got) != 2 || got[0] != "AÑ1" {
		t.Errorf("rune transposition: %v", got)
	}
}

func TestLuhn(t *testing.T) {
	for _, s := range []string{"356000000", "732829320", "391838042", "79927398713"} {
		if !LuhnOK(s) {
			t.Errorf("LuhnOK(%q) = false", s)
		}
	}
	for _, s := range []string{"356000001", "79927398710", "", "12A"} {
		if LuhnOK(s) {
			t.Errorf("LuhnOK(%q) = true", s)
		}
	}
}

func TestFRNewStyle(t *testing.T) {
	if FRNewStyle("44391838042") {
		t.Errorf("numeric key reported as new style")
	}
	if !FRNewStyle("K7399859412") || !FRNewStyle("4Z123456782") {
		t.Errorf("alphanumeric key not reported as new style")
	}
	s := ByCountry("FR")
	if !s.HasFormat("K7399859412") || s.Valid("K7399859412") {
		t.Errorf("new style: want HasFormat true, Valid false")
	}
	if FRNewStyle("I7399859412") || FRNewStyle("K739985941") {
		t.Errorf("malformed codes reported as new style")
	}
}

func TestSpecifics(t *testing.T) {
	// CH: body whose check computes to 10 can never be valid
	ch := ByCountry("CH")
	for c := byte('0'); c <= '9'; c++ {
		if ch.Valid("E10042630" + string(c)) {
			t.Errorf("CH E10042630%c valid", c)
		}
	}
	// NL: each rule alone is sufficient
	if !nlEleven(digitsOf("808661863")) || nlMod97("808661863B01") {
		t.Errorf("NL 808661863B01 expected eleven-test only")
	}
	if !nlMod97("000099998B57") {
		t.Errorf("NL 000099998B57 expected mod-97")
	}
	// GB: both moduli
	gb := ByCountry("GB")
	for _, c := range []string{"434031494", "100000132"} {
		if !gb.Valid(c) {
			t.Errorf("GB %s", c)
		}
	}
	for _, c := range []string{"GD500", "HA499", "GD1034", "XX103"} {
		if gb.HasFormat(c) {
			t.Errorf("GB %s has format", c)
		}
	}
	// ES: letter/digit control
	es := ByCountry("ES")
	if es.Valid("K95143368") { // K/L/M require the letter
		t.Errorf("ES K95143368 valid")
	}
	if !es.Valid("A5881850A") { // organisation: either representation
		t.Errorf("ES A5881850A invalid")
	}
	// EL: 8-digit code read with a leading zero
	if !ByCountry("EL").Valid("64677095") {
		t.Errorf("EL 64677095")
	}
}
