package taxid

import (
	"math/rand/v2"
	"strings"
)

// ---------------------------------------------------------------------------
// ES — NIF: DNI, NIE, organisation (CIF) and K/L/M codes

const (
	esDNILetters  = "TRWAGMYFPDXBNJZSQVHLCKE" // index = number mod 23
	esOrgTypes    = "ABCDEFGHJNPQRSUVW"
	esOtherTypes  = "KLM"
	esCtrlLetters = "JABCDEFGHI" // index = control digit
)

// esOrgControl is the control digit over the 7 central digits: digits in odd
// positions (1st, 3rd, 5th, 7th) are doubled and replaced by their digit sum,
// digits in even positions are added as they are.
func esOrgControl(d []int) int {
	sum := 0
	for i := 0; i < 7; i++ {
		if i%2 == 0 {
			sum += digitSum(2 * d[i])
		} else {
			sum += d[i]
		}
	}
	return (10 - sum%10) % 10
}

type esKind int

const (
	esNone esKind = iota
	esDNI
	esNIE
	esOrg
	esOther
)

func esClassify(code string) esKind {
	if len(code) != 9 {
		return esNone
	}
	last := code[8]
	switch {
	case allDigits(code[:8]) && isUpper(last):
		return esDNI
	case strings.IndexByte("XYZ", code[0]) >= 0 && allDigits(code[1:8]) && isUpper(last):
		return esNIE
	case strings.IndexByte(esOrgTypes, code[0]) >= 0 && allDigits(code[1:8]) && isAlnum(last):
		return esOrg
	case strings.IndexByte(esOtherTypes, code[0]) >= 0 && allDigits(code[1:8]) && isAlnum(last):
		return esOther
	}
	return esNone
}

func esValid(code string) bool {
	switch esClassify(code) {
	case esDNI:
		return esDNILetters[modStr(code[:8], 23)] == code[8]
	case esNIE:
		n := string([]byte{byte('0' + strings.IndexByte("XYZ", code[0]))}) + code[1:8]
		return esDNILetters[modStr(n, 23)] == code[8]
	case esOrg:
		c := esOrgControl(digitsOf(code[1:8]))
		return code[8] == byte('0'+c) || code[8] == esCtrlLetters[c]
	case esOther:
		c := esOrgControl(digitsOf(code[1:8]))
		return code[8] == esCtrlLetters[c]
	}
	return false
}

func schemeES() Scheme {
	return Scheme{
		Country:   "ES",
		HasFormat: func(code string) bool { return esClassify(code) != esNone },
		Valid:     esValid,
		GenValid: func(r *rand.Rand) string {
			switch r.IntN(5) {
			case 0: // DNI
				n := toStr(randDigits(r, 8))
				return n + string(esDNILetters[modStr(n, 23)])
			case 1: // NIE
				k := r.IntN(3)
				n := toStr(randDigits(r, 7))
				full := string([]byte{byte('0' + k)}) + n
				return string("XYZ"[k]) + n + string(esDNILetters[modStr(full, 23)])
			case 2: // organisation, digit control
				d := randDigits(r, 7)
				t := esOrgTypes[r.IntN(len(esOrgTypes))]
				return string(t) + toStr(d) + string([]byte{byte('0' + esOrgControl(d))})
			case 3: // organisation, letter control
				d := randDigits(r, 7)
				t := esOrgTypes[r.IntN(len(esOrgTypes))]
				return string(t) + toStr(d) + string(esCtrlLetters[esOrgControl(d)])
			default: // K, L, M
				d := randDigits(r, 7)
				t := esOtherTypes[r.IntN(len(esOtherTypes))]
				return string(t) + toStr(d) + string(esCtrlLetters[esOrgControl(d)])
			}
		},
		GenRandom: func(r *rand.Rand) string {
			switch r.IntN(4) {
			case 0:
				return randFrom(r, alphaDigits, 8) + randFrom(r, alphaUpper, 1)
			case 1:
				return randFrom(r, "XYZ", 1) + randFrom(r, alphaDigits, 7) + randFrom(r, alphaUpper, 1)
			case 2:
				return randFrom(r, esOrgTypes, 1) + randFrom(r, alphaDigits, 7) + randFrom(r, alphaDigits+"ABCDEFGHIJ", 1)
			default:
				return randFrom(r, esOtherTypes, 1) + randFrom(r, alphaDigits, 7) + randFrom(r, "ABCDEFGHIJ", 1)
			}
		},
		Note: "ES NIF, 9 characters. DNI: 8 digits + letter TRWAGMYFPDXBNJZSQVHLCKE[number mod 23]. NIE: X/Y/Z + 7 digits + " +
			"letter, with X,Y,Z read as 0,1,2 and the same mod-23 table. Organisations (first letter in ABCDEFGHJNPQRSUVW) + " +
			"7 digits + control: digits in odd positions doubled with digit sum, even positions added; control digit = " +
			"(10 - sum mod 10) mod 10, written either as that digit or as JABCDEFGHI[digit]; BOTH representations are " +
			"accepted for every organisation type (the per-type letter-only/digit-only convention of the AEAT is NOT " +
			"enforced). K, L, M + 7 digits + control use the same control computed as for organisations and written as " +
			"the LETTER only (a digit control is rejected). Follows Orden EHA/451/2008 and Real Decreto 1065/2007 as " +
			"commonly published.",
	}
}

// ---------------------------------------------------------------------------
// FR — numéro de TVA: 2-character key + 9-digit SIREN

const frKeyAlphabet = "0123456789ABCDEFGHJKLMNPQRSTUVWXYZ" // no I, no O

func frFormat(code string) bool {
	if len(code) != 11 || !allDigits(code[2:]) {
		return false
	}
	return strings.IndexByte(frKeyAlphabet, code[0]) >= 0 && strings.IndexByte(frKeyAlphabet, code[1]) >= 0
}

// FRNewStyle reports whether code is a French VAT number whose key is not two
// digits (the "new style" alphanumeric key), which this oracle does not verify.
func FRNewStyle(code string) bool {
	return frFormat(code) && !(isDigit(code[0]) && isDigit(code[1]))
}

func frKey(siren string) int { return (12 + 3*modStr(siren, 97)) % 97 }

func schemeFR() Scheme {
	return Scheme{
		Country:   "FR",
		HasFormat: frFormat,
		Valid: func(code string) bool {
			if !frFormat(code) || FRNewStyle(code) {
				return false
			}
			return twoDigits(frKey(code[2:])) == code[:2]
		},
		GenValid: func(r *rand.Rand) string {
			var siren string
			if r.IntN(2) == 0 { // Luhn-valid SIREN, as really issued
				d := randDigits(r, 8)
				siren = toStr(d) + toStr([]int{luhnCheck(d)})
			} else {
				siren = toStr(randDigits(r, 9))
			}
			return twoDigits(frKey(siren)) + siren
		},
		GenRandom: func(r *rand.Rand) string { return randFrom(r, alphaDigits, 11) },
		Note: "FR TVA intracommunautaire: 2-character key + 9-digit SIREN. Old-style numeric key = " +
			"(12 + 3*(SIREN mod 97)) mod 97, written with two digits. Codes whose key is not two digits (new-style " +
			"alphanumeric key, alphabet without I and O) have the format but are outside the oracle: HasFormat is true, " +
			"Valid is false and FRNewStyle reports them so the caller can skip them. The Luhn validity of the SIREN is " +
			"not required (LuhnOK is exported for callers who want it). Follows the DGFiP description of the key.",
	}
}

// ---------------------------------------------------------------------------
// GB — VAT registration number

var gbWeights = []int{8, 7, 6, 5, 4, 3, 2}

func gbFormat(code string) bool {
	switch len(code) {
	case 9, 12:
		return allDigits(code)
	case 5:
		if !allDigits(code[2:]) {
			return false
		}
		n := modStr(code[2:], 1000)
		switch code[:2] {
		case "GD":
			return n <= 499
		case "HA":
			return n >= 500
		}
	}
	return false
}

func schemeGB() Scheme {
	return Scheme{
		Country:   "GB",
		HasFormat: gbFormat,
		Valid: func(code string) bool {
			if !gbFormat(code) {
				return false
			}
			if len(code) == 5 {
				return true // GD/HA: range only, no check digits
			}
			d := digitsOf(code[:9])
			total := dot(d, gbWeights) + 10*d[7] + d[8]
			return total%97 == 0 || (total+55)%97 == 0
		},
		GenValid: func(r *rand.Rand) string {
			k := r.IntN(10)
			switch k {
			case 0:
				return "GD" + string([]byte{byte('0' + r.IntN(5))}) + twoDigits(r.IntN(100))
			case 1:
				return "HA" + string([]byte{byte('5' + r.IntN(5))}) + twoDigits(r.IntN(100))
			}
			var code string
			for {
				d := randDigits(r, 7)
				total := dot(d, gbWeights)
				if k%2 == 1 {
					total += 55 // 9755 style
				}
				check := 97 - total%97 // 1..97, as in the HMRC subtraction procedure
				code = toStr(d) + twoDigits(check)
				if code != "000000000" {
					break
				}
			}
			if k >= 8 { // branch trader: 3 more digits
				code += toStr(randDigits(r, 3))
			}
			return code
		},
		GenRandom: func(r *rand.Rand) string {
			switch r.IntN(8) {
			case 0:
				return "GD" + randFrom(r, alphaDigits, 3)
			case 1:
				return "HA" + randFrom(r, alphaDigits, 3)
			case 2:
				return randFrom(r, alphaDigits, 12)
			}
			return randFrom(r, alphaDigits, 9)
		},
		Note: "GB VAT number: 9 digits, or 12 digits (9 + 3-digit branch, branch ignored), or GD + 3 digits (000-499, " +
			"government departments) or HA + 3 digits (500-999, health authorities); GD/HA carry no check digits. For " +
			"the 9 digits: total = weights 8,7,6,5,4,3,2 over the first 7 digits + the number formed by the last two " +
			"digits; valid when total mod 97 = 0 (original modulus 97) or (total + 55) mod 97 = 0 (modulus 9755, in " +
			"use since 2010). Historical number ranges are not enforced. 000000000 satisfies the arithmetic and is " +
			"therefore Valid here, although it is never issued. Follows the HMRC VAT number validation description " +
			"(as reproduced in the EU VIES algorithm notes).",
	}
}

// ---------------------------------------------------------------------------
// EL — Greek AFM: 9 digits

var elWeights = []int{256, 128, 64, 32, 16, 8, 4, 2}

func elCheck(d []int) int { return dot(d, elWeights) % 11 % 10 }

func elCanon(code string) (string, bool) {
	if !allDigits(code) {
		return "", false
	}
	switch len(code) {
	case 9:
		return code, true
	case 8:
		return "0" + code, true
	}
	return "", false
}

func schemeEL() Scheme {
	return Scheme{
		Country: "EL",
		HasFormat: func(code string) bool {
			_, ok := elCanon(code)
			return ok
		},
		Valid: func(code string) bool {
			c, ok := elCanon(code)
			if !ok {
				return false
			}
			d := digitsOf(c)
			return elCheck(d) == d[8]
		},
		GenValid: func(r *rand.Rand) string {
			d := randDigits(r, 8)
			return toStr(d) + toStr([]int{elCheck(d)})
		},
		GenRandom: func(r *rand.Rand) string { return randFrom(r, alphaDigits, 9) },
		Note: "EL (Greece) AFM: 9 digits; sum of digit[i]*2^(8-i) for i = 0..7; check = (sum mod 11) mod 10 = 9th digit. " +
			"An 8-digit code is read with a leading 0. GenValid only emits 9-digit codes. 000000000 satisfies the " +
			"arithmetic and is Valid here. Follows the AADE/GSIS description of the AFM check digit.",
	}
}
