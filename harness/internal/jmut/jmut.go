// Package jmut is a small order-preserving JSON tree with structure-aware
// edit helpers, used to derive edited / mutated / re-encoded documents.
package jmut

import (
	"bytes"
	"encoding/json"
	"fmt"
	"io"
	"math/rand/v2"
	"strconv"
	"strings"
)

// Kind of node.
type Kind int

// Kinds.
const (
	Null Kind = iota
	Bool
	Num
	Str
	Arr
	Obj
)

// Member of an object.
type Member struct {
	Key string
	Val *Node
}

// Node is a JSON value; objects keep member order.
type Node struct {
	K   Kind
	B   bool
	Num string
	S   string
	A   []*Node
	M   []Member
}

// Parse reads one JSON value.
func Parse(data []byte) (*Node, error) {
	d := json.NewDecoder(bytes.NewReader(data))
	d.UseNumber()
	n, err := parseValue(d)
	if err != nil {
		return nil, err
	}
	if _, err := d.Token(); err != io.EOF {
		return nil, fmt.Errorf("trailing data")
	}
	return n, nil
}

func parseValue(d *json.Decoder) (*Node, error) {
	t, err := d.Token()
	if err != nil {
		return nil, err
	}
	switch v := t.(type) {
	case json.Delim:
		switch v {
		case '{':
			n := &Node{K: Obj}
			for d.More() {
				kt, err := d.Token()
				if err != nil {
					return nil, err
				}
				k, ok := kt.(string)
				if !ok {
					return nil, fmt.Errorf("bad key")
				}
				val, err := parseValue(d)
				if err != nil {
					return nil, err
				}
				n.M = append(n.M, Member{k, val})
			}
			_, err := d.Token()
			return n, err
		case '[':
			n := &Node{K: Arr, A: []*Node{}}
			for d.More() {
				val, err := parseValue(d)
				if err != nil {
					return nil, err
				}
				n.A = append(n.A, val)
			}
			_, err := d.Token()
			return n, err
		}
		return nil, fmt.Errorf("unexpected delimiter")
	case string:
		return &Node{K: Str, S: v}, nil
	case json.Number:
		return &Node{K: Num, Num: string(v)}, nil
	case bool:
		return &Node{K: Bool, B: v}, nil
	case nil:
		return &Node{K: Null}, nil
	}
	return nil, fmt.Errorf("unexpected token")
}

// Clone deep-copies.
func (n *Node) Clone() *Node {
	if n == nil {
		return nil
	}
	c := *n
	if n.A != nil {
		c.A = make([]*Node, len(n.A))
		for i, x := range n.A {
			c.A[i] = x.Clone()
		}
	}
	if n.M != nil {
		c.M = make([]Member, len(n.M))
		for i, m := range n.M {
			c.M[i] = Member{m.Key, m.Val.Clone()}
		}
	}
	return &c
}

// Style of serialisation.
type Style struct {
	Indent    bool
	Shuffle   *rand.Rand // shuffle member order when non-nil
	EscapeAll bool       // write every non-ASCII rune and a third of ASCII letters as \uXXXX
	BareNums  func(key, s string) bool
}

// Bytes serialises compactly in original member order.
func (n *Node) Bytes() []byte { return n.Encode(Style{}) }

// Encode serialises with a style.
func (n *Node) Encode(st Style) []byte {
	var b bytes.Buffer
	n.enc(&b, st, 0, "")
	return b.Bytes()
}

func encStr(b *bytes.Buffer, s string, st Style) {
	if !st.EscapeAll {
		q, _ := json.Marshal(s)
		// json.Marshal escapes <,>,& — harmless
		b.Write(q)
		return
	}
	b.WriteByte('"')
	for i, r := range s {
		switch {
		case r == '"':
			b.WriteString(`\"`)
		case r == '\\':
			b.WriteString(`\\`)
		case r < 0x20, r > 0x7e, i%3 == 0:
			if r >= 0x10000 {
				r2 := r - 0x10000
				fmt.Fprintf(b, `\u%04x\u%04X`, 0xD800+(r2>>10), 0xDC00+(r2&0x3ff))
			} else {
				fmt.Fprintf(b, `\u%04x`, r)
			}
		default:
			b.WriteRune(r)
		}
	}
	b.WriteByte('"')
}

func (n *Node) enc(b *bytes.Buffer, st Style, depth int, key string) {
	nl := func(d int) {
		if st.Indent {
			b.WriteByte('\n')
			b.WriteString(strings.Repeat("\t", d))
		}
	}
	switch n.K {
	case Null:
		b.WriteString("null")
	case Bool:
		b.WriteString(strconv.FormatBool(n.B))
	case Num:
		b.WriteString(n.Num)
	case Str:
		if st.BareNums != nil && st.BareNums(key, n.S) {
			b.WriteString(n.S)
		} else {
			encStr(b, n.S, st)
		}
	case Arr:
		b.WriteByte('[')
		for i, x := range n.A {
			if i > 0 {
				b.WriteByte(',')
			}
			nl(depth + 1)
			x.enc(b, st, depth+1, key)
		}
		if len(n.A) > 0 {
			nl(depth)
		}
		b.WriteByte(']')
	case Obj:
		idx := make([]int, len(n.M))
		for i := range idx {
			idx[i] = i
		}
		if st.Shuffle != nil {
			st.Shuffle.Shuffle(len(idx), func(i, j int) { idx[i], idx[j] = idx[j], idx[i] })
		}
		b.WriteByte('{')
		for k, i := range idx {
			if k > 0 {
				b.WriteByte(',')
			}
			nl(depth + 1)
			encStr(b, n.M[i].Key, st)
			b.WriteByte(':')
			if st.Indent {
				b.WriteByte(' ')
			}
			n.M[i].Val.enc(b, st, depth+1, n.M[i].Key)
		}
		if len(n.M) > 0 {
			nl(depth)
		}
		b.WriteByte('}')
	}
}

// Get returns the member value (nil if absent).
func (n *Node) Get(key string) *Node {
	if n == nil || n.K != Obj {
		return nil
	}
	for _, m := range n.M {
		if m.Key == key {
			return m.Val
		}
	}
	return nil
}

// Set replaces or appends a member.
func (n *Node) Set(key string, v *Node) {
	for i, m := range n.M {
		if m.Key == key {
			n.M[i].Val = v
			return
		}
	}
	n.M = append(n.M, Member{key, v})
}

// Del removes a member.
func (n *Node) Del(key string) {
	for i, m := range n.M {
		if m.Key == key {
			n.M = append(n.M[:i:i], n.M[i+1:]...)
			return
		}
	}
}

// Elem is one step of a path.
type Elem struct {
	Key string
	Idx int // -1 for keys
}

// Path into a tree.
type Path []Elem

// Class renders the path with indices abstracted: lines[].item.price
func (p Path) Class() string {
	var b strings.Builder
	for i, e := range p {
		if e.Idx >= 0 {
			b.WriteString("[]")
			continue
		}
		if i > 0 {
			b.WriteByte('.')
		}
		b.WriteString(e.Key)
	}
	return b.String()
}

// String renders the concrete path.
func (p Path) String() string {
	var b strings.Builder
	for i, e := range p {
		if e.Idx >= 0 {
			fmt.Fprintf(&b, "[%d]", e.Idx)
			continue
		}
		if i > 0 {
			b.WriteByte('.')
		}
		b.WriteString(e.Key)
	}
	return b.String()
}

// At resolves a path.
func (n *Node) At(p Path) *Node {
	cur := n
	for _, e := range p {
		if cur == nil {
			return nil
		}
		if e.Idx >= 0 {
			if cur.K != Arr || e.Idx >= len(cur.A) {
				return nil
			}
			cur = cur.A[e.Idx]
		} else {
			cur = cur.Get(e.Key)
		}
	}
	return cur
}

// Parent resolves the parent of a path.
func (n *Node) Parent(p Path) *Node {
	if len(p) == 0 {
		return nil
	}
	return n.At(p[:len(p)-1])
}

// Walk visits every node with its path (pre-order).
func (n *Node) Walk(fn func(p Path, x *Node)) {
	var rec func(p Path, x *Node)
	rec = func(p Path, x *Node) {
		fn(p, x)
		switch x.K {
		case Arr:
			for i, y := range x.A {
				rec(append(append(Path{}, p...), Elem{Idx: i}), y)
			}
		case Obj:
			for _, m := range x.M {
				rec(append(append(Path{}, p...), Elem{Key: m.Key, Idx: -1}), m.Val)
			}
		}
	}
	rec(Path{}, n)
}

// Replace puts v at path p (p must exist and be non-empty).
func (n *Node) Replace(p Path, v *Node) bool {
	par := n.Parent(p)
	if par == nil {
		return false
	}
	last := p[len(p)-1]
	if last.Idx >= 0 {
		if par.K != Arr || last.Idx >= len(par.A) {
			return false
		}
		par.A[last.Idx] = v
		return true
	}
	if par.K != Obj || par.Get(last.Key) == nil {
		return false
	}
	par.Set(last.Key, v)
	return true
}

// Remove deletes the member or element at p.
func (n *Node) Remove(p Path) bool {
	par := n.Parent(p)
	if par == nil {
		return false
	}
	last := p[len(p)-1]
	if last.Idx >= 0 {
		if par.K != Arr || last.Idx >= len(par.A) {
			return false
		}
		par.A = append(par.A[:last.Idx:last.Idx], par.A[last.Idx+1:]...)
		return true
	}
	if par.K != Obj || par.Get(last.Key) == nil {
		return false
	}
	par.Del(last.Key)
	return true
}

// Helpers to build nodes.
func S(s string) *Node   { return &Node{K: Str, S: s} }
func N(s string) *Node   { return &Node{K: Num, Num: s} }
func Bl(b bool) *Node    { return &Node{K: Bool, B: b} }
func Nl() *Node          { return &Node{K: Null} }
func O(ms ...Member) *Node { return &Node{K: Obj, M: ms} }
func Ar(xs ...*Node) *Node {
	if xs == nil {
		xs = []*Node{}
	}
	return &Node{K: Arr, A: xs}
}

// Equal compares two trees structurally (member order ignored).
func Equal(a, b *Node) bool {
	if a == nil || b == nil {
		return a == b
	}
	if a.K != b.K {
		return false
	}
	switch a.K {
	case Bool:
		return a.B == b.B
	case Num:
		return a.Num == b.Num
	case Str:
		return a.S == b.S
	case Arr:
		if len(a.A) != len(b.A) {
			return false
		}
		for i := range a.A {
			if !Equal(a.A[i], b.A[i]) {
				return false
			}
		}
	case Obj:
		if len(a.M) != len(b.M) {
			return false
		}
		for _, m := range a.M {
			if !Equal(m.Val, b.Get(m.Key)) {
				return false
			}
		}
	}
	return true
}
