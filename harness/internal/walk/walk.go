// Package walk fingerprints Go value graphs, including unexported fields and
// the spare capacity of slices, using only reflect's read accessors (which are
// permitted on unexported values). It is the harness's immutability monitor:
// fingerprint before / after an operation that must not alter shared state.
package walk

import (
	"fmt"
	"encoding/binary"
	"hash/fnv"
	"math"
	"reflect"
)

// Stats describes what a traversal saw.
type Stats struct {
	Nodes         int64 // values visited
	Pointers      int64 // distinct pointer targets
	Slices        int64
	SpareSlices   int64 // slices with cap > len (where an in-place append would land)
	SpareElements int64
	Maps          int64
	Funcs         int64
}

const inProgress = ^uint64(0)

type visitKey struct {
	p uintptr
	t reflect.Type
}

type walker struct {
	visited map[visitKey]uint64
	st      Stats
	addrs   map[uintptr]string // mutable heap nodes (pointer targets, slice arrays, maps) -> path
	path    []string
	collect bool
}

// Fingerprint hashes everything reachable from root (root is usually a
// pointer or a map of roots).
func Fingerprint(root any) (uint64, Stats) {
	w := &walker{visited: map[visitKey]uint64{}}
	h := w.hash(reflect.ValueOf(root))
	return h, w.st
}

// Addresses returns the heap addresses of all mutable nodes (pointer targets
// of structs, slice backing arrays, maps) reachable from root, with a path
// describing where each was found.
func Addresses(root any) map[uintptr]string {
	w := &walker{visited: map[visitKey]uint64{}, addrs: map[uintptr]string{}, collect: true}
	w.hash(reflect.ValueOf(root))
	return w.addrs
}

func mix(h uint64, v uint64) uint64 {
	h ^= v + 0x9e3779b97f4a7c15 + (h << 6) + (h >> 2)
	return h * 0xff51afd7ed558ccd
}

func hashString(s string) uint64 {
	f := fnv.New64a()
	f.Write([]byte(s))
	return f.Sum64()
}

func (w *walker) push(s string) {
	if w.collect {
		w.path = append(w.path, s)
	}
}
func (w *walker) pop() {
	if w.collect {
		w.path = w.path[:len(w.path)-1]
	}
}
func (w *walker) where() string {
	out := ""
	for _, p := range w.path {
		out += p
	}
	return out
}

func (w *walker) hash(v reflect.Value) uint64 {
	w.st.Nodes++
	if !v.IsValid() {
		return 1
	}
	h := hashString(v.Type().String())
	switch v.Kind() {
	case reflect.Bool:
		if v.Bool() {
			return mix(h, 3)
		}
		return mix(h, 2)
	case reflect.Int, reflect.Int8, reflect.Int16, reflect.Int32, reflect.Int64:
		return mix(h, uint64(v.Int()))
	case reflect.Uint, reflect.Uint8, reflect.Uint16, reflect.Uint32, reflect.Uint64, reflect.Uintptr:
		return mix(h, v.Uint())
	case reflect.Float32, reflect.Float64:
		return mix(h, math.Float64bits(v.Float()))
	case reflect.Complex64, reflect.Complex128:
		c := v.Complex()
		return mix(mix(h, math.Float64bits(real(c))), math.Float64bits(imag(c)))
	case reflect.String:
		return mix(h, hashString(v.String()))
	case reflect.Ptr:
		if v.IsNil() {
			return mix(h, 5)
		}
		k := visitKey{v.Pointer(), v.Type()}
		if done, ok := w.visited[k]; ok {
			if done == inProgress {
				// a cycle: constant marker
				return mix(h, 29)
			}
			// memoised: the same target hashes the same wherever it is reached from,
			// so the result does not depend on map iteration order
			return done
		}
		w.st.Pointers++
		w.visited[k] = inProgress
		if w.collect {
			w.addrs[v.Pointer()] = w.where()
		}
		w.push("*")
		r := mix(h, w.hash(v.Elem()))
		w.pop()
		if r == inProgress {
			r++
		}
		w.visited[k] = r
		return r
	case reflect.Interface:
		if v.IsNil() {
			return mix(h, 11)
		}
		return mix(h, w.hash(v.Elem()))
	case reflect.Struct:
		t := v.Type()
		for i := 0; i < v.NumField(); i++ {
			w.push("." + t.Field(i).Name)
			h = mix(h, w.hash(v.Field(i)))
			w.pop()
		}
		return h
	case reflect.Array:
		for i := 0; i < v.Len(); i++ {
			h = mix(h, w.hash(v.Index(i)))
		}
		return h
	case reflect.Slice:
		if v.IsNil() {
			return mix(h, 13)
		}
		w.st.Slices++
		n, c := v.Len(), v.Cap()
		h = mix(h, uint64(n))
		if w.collect && c > 0 {
			w.addrs[v.Pointer()] = w.where() + "[]"
		}
		full := v
		if c > n {
			w.st.SpareSlices++
			w.st.SpareElements += int64(c - n)
			full = v.Slice(0, c)
		}
		if v.Type().Elem().Kind() == reflect.Uint8 {
			// byte slices: hash content directly
			b := make([]byte, 8)
			for i := 0; i < full.Len(); i++ {
				h = mix(h, uint64(full.Index(i).Uint()))
			}
			_ = binary.LittleEndian
			_ = b
			return h
		}
		for i := 0; i < full.Len(); i++ {
			w.push("[i]")
			h = mix(h, w.hash(full.Index(i)))
			w.pop()
		}
		return h
	case reflect.Map:
		if v.IsNil() {
			return mix(h, 17)
		}
		w.st.Maps++
		if w.collect {
			w.addrs[v.Pointer()] = w.where() + "{}"
		}
		var acc uint64
		it := v.MapRange()
		for it.Next() {
			w.push("{k}")
			kh := w.hash(it.Key())
			vh := w.hash(it.Value())
			w.pop()
			acc += mix(kh, vh) // commutative: independent of iteration order
		}
		return mix(mix(h, uint64(v.Len())), acc)
	case reflect.Func:
		w.st.Funcs++
		if v.IsNil() {
			return mix(h, 19)
		}
		return mix(h, uint64(v.Pointer()))
	case reflect.Chan, reflect.UnsafePointer:
		return mix(h, 23)
	}
	return h
}

// PathHashes fingerprints every sub-tree down to maxDepth separately, keyed by
// a readable path, so that a change can be localised.
func PathHashes(root any, maxDepth int) map[string]uint64 {
	out := map[string]uint64{}
	var rec func(v reflect.Value, path string, depth int)
	rec = func(v reflect.Value, path string, depth int) {
		if !v.IsValid() {
			return
		}
		w := &walker{visited: map[visitKey]uint64{}}
		out[path] = w.hash(v)
		if depth >= maxDepth {
			return
		}
		switch v.Kind() {
		case reflect.Ptr, reflect.Interface:
			if !v.IsNil() {
				rec(v.Elem(), path, depth)
			}
		case reflect.Struct:
			for i := 0; i < v.NumField(); i++ {
				rec(v.Field(i), path+"."+v.Type().Field(i).Name, depth+1)
			}
		case reflect.Slice:
			if v.IsNil() {
				return
			}
			full := v
			if v.Cap() > v.Len() {
				full = v.Slice(0, v.Cap())
			}
			for i := 0; i < full.Len() && i < 64; i++ {
				rec(full.Index(i), fmt.Sprintf("%s[%d]", path, i), depth+1)
			}
		case reflect.Map:
			it := v.MapRange()
			for it.Next() {
				rec(it.Value(), fmt.Sprintf("%s{%v}", path, keyString(it.Key())), depth+1)
			}
		}
	}
	rec(reflect.ValueOf(root), "", 0)
	return out
}

func keyString(k reflect.Value) string {
	switch k.Kind() {
	case reflect.String:
		return k.String()
	case reflect.Int, reflect.Int64, reflect.Int32:
		return fmt.Sprint(k.Int())
	}
	return k.Type().String()
}
