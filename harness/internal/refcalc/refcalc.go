// Package refcalc is an independent re-statement, in exact big-decimal
// arithmetic (internal/dec), of the documented calculation procedure of gobl's
// bill documents and tax totals. It takes the same input JSON the real code
// received (plus the percentages the real code resolved from rate keys, read
// from the calculated output) and produces every figure the real code
// presents, so that the two can be compared figure by figure.
package refcalc

import (
	"encoding/json"
	"fmt"
	"math/big"
	"sort"
	"strings"

	"verif/internal/dec"
)

// ---- input model -------------------------------------------------------------

// Combo is a tax combo as resolved on the calculated document.
type Combo struct {
	Cat       string            `json:"cat"`
	Country   string            `json:"country,omitempty"`
	Rate      string            `json:"rate,omitempty"`
	Percent   *string           `json:"percent,omitempty"`
	Surcharge *string           `json:"surcharge,omitempty"`
	Ext       map[string]string `json:"ext,omitempty"`
}

// Money is an amount in a currency (alt prices).
type Money struct {
	Currency string `json:"currency"`
	Value    string `json:"value"`
}

// Item of a line.
type Item struct {
	Price     *string `json:"price,omitempty"`
	Currency  string  `json:"currency,omitempty"`
	AltPrices []Money `json:"alt_prices,omitempty"`
}

// LineDC is a line discount or charge.
type LineDC struct {
	Percent  *string `json:"percent,omitempty"`
	Base     *string `json:"base,omitempty"`
	Amount   string  `json:"amount,omitempty"`
	Rate     *string `json:"rate,omitempty"`
	Quantity *string `json:"quantity,omitempty"`
}

// SubLine of a breakdown.
type SubLine struct {
	Quantity  string   `json:"quantity"`
	Item      *Item    `json:"item,omitempty"`
	Discounts []LineDC `json:"discounts,omitempty"`
	Charges   []LineDC `json:"charges,omitempty"`
}

// Line of a document.
type Line struct {
	Quantity  string    `json:"quantity"`
	Item      *Item     `json:"item,omitempty"`
	Breakdown []SubLine `json:"breakdown,omitempty"`
	Discounts []LineDC  `json:"discounts,omitempty"`
	Charges   []LineDC  `json:"charges,omitempty"`
	Taxes     []Combo   `json:"taxes,omitempty"`
}

// DocDC is a document level discount or charge.
type DocDC struct {
	Percent *string `json:"percent,omitempty"`
	Base    *string `json:"base,omitempty"`
	Amount  string  `json:"amount,omitempty"`
	Taxes   []Combo `json:"taxes,omitempty"`
}

// Advance payment.
type Advance struct {
	Percent *string `json:"percent,omitempty"`
	Amount  string  `json:"amount,omitempty"`
}

// DueDate entry.
type DueDate struct {
	Percent *string `json:"percent,omitempty"`
	Amount  string  `json:"amount,omitempty"`
}

// Rate is an exchange rate.
type Rate struct {
	From   string `json:"from"`
	To     string `json:"to"`
	Amount string `json:"amount"`
}

// Doc is the calculation-relevant part of an invoice / order / delivery.
type Doc struct {
	Currency string `json:"currency"`
	Tax      *struct {
		PricesInclude string `json:"prices_include,omitempty"`
		Rounding      string `json:"rounding,omitempty"`
	} `json:"tax,omitempty"`
	ExchangeRates []Rate  `json:"exchange_rates,omitempty"`
	Lines         []Line  `json:"lines,omitempty"`
	Discounts     []DocDC `json:"discounts,omitempty"`
	Charges       []DocDC `json:"charges,omitempty"`
	Payment       *struct {
		Advances []Advance `json:"advances,omitempty"`
		Terms    *struct {
			DueDates []DueDate `json:"due_dates,omitempty"`
		} `json:"terms,omitempty"`
	} `json:"payment,omitempty"`
	Totals *struct {
		Rounding *string `json:"rounding,omitempty"`
	} `json:"totals,omitempty"`
}

// Env describes the surroundings the calculation needs.
type Env struct {
	Decimals func(currency string) (int, bool) // currency → subunits
	Rule     string                            // "precise" | "currency" (already resolved: explicit, regime default, precise)
	Retained func(combo Combo) bool            // is the combo's category a retained one
	Extra    int                               // extra working decimals on top of c+2 (12 ≈ never-rounded oracle for the "< 1 minor unit" bound)
}

// ---- output model --------------------------------------------------------------

// OutLineDC presented discount/charge.
type OutLineDC struct {
	Base   *dec.D
	Amount dec.D
}

// OutSub presented sub-line.
type OutSub struct {
	Price      *dec.D
	Sum, Total *dec.D
	Discounts  []OutLineDC
	Charges    []OutLineDC
}

// OutLine presented line.
type OutLine struct {
	Skipped    bool // no item: untouched
	Price      *dec.D
	Sum, Total *dec.D
	Discounts  []OutLineDC
	Charges    []OutLineDC
	Breakdown  []OutSub
	work       *dec.D // working total (tax base contribution)
}

// OutRate is a rate group of the tax summary.
type OutRate struct {
	Key        string
	Cat        string
	Country    string
	Percent    *dec.D
	SurPercent *dec.D
	Ext        map[string]string
	Base       dec.D
	Amount     dec.D
	SurAmount  *dec.D
	Members    int
}

// OutCat is a category of the tax summary.
type OutCat struct {
	Code      string
	Retained  bool
	Rates     []*OutRate
	Amount    dec.D
	Surcharge *dec.D
	precise   dec.D
}

// Out is everything the calculation presents.
type Out struct {
	C            int
	Rule         string
	Lines        []OutLine
	Discounts    []dec.D
	Charges      []dec.D
	HasTotals    bool
	Sum          dec.D
	Discount     *dec.D
	Charge       *dec.D
	TaxIncluded  *dec.D
	Total        dec.D
	Cats         []*OutCat
	TaxSum       dec.D
	Tax          dec.D
	TotalWithTax dec.D
	Rounding     *dec.D
	Payable      dec.D
	Advances     []dec.D
	Advance      *dec.D
	Due          *dec.D
	DueDates     []dec.D
	// working values before the final presentation rounding
	Pre struct {
		Sum, Gross, Total, Tax, TotalWithTax, Payable dec.D
		Due                                    *dec.D
	}
	// instrumentation
	OutOfDomain bool // an integer intermediate of the library's float arithmetic would leave 2^52 (C05's domain)
	Roundings   int  // rounding points at which digits were dropped
	Ties        int  // of those, exact half-unit ties
	MixedExp    bool
}

// Error is a calculation the reference refuses (the real code must too).
type Error struct{ Why string }

func (e Error) Error() string { return e.Why }

// Unsupported marks documents outside the modelled feature set.
type Unsupported struct{ Why string }

func (e Unsupported) Error() string { return "unsupported: " + e.Why }

type calc struct {
	env *Env
	c   int
	out *Out
}

// rnd rounds the exact rational r to e decimals and records instrumentation.
func (k *calc) rnd(r *big.Rat, e int) dec.D {
	if !dec.IsExact(r, e) {
		k.out.Roundings++
		if dec.IsTie(r, e) {
			k.out.Ties++
		}
	}
	return dec.RoundRat(r, e)
}

func (k *calc) round(d dec.D, e int) dec.D {
	if e >= d.E {
		r := d.Round(e)
		k.domain(r.U)
		return r
	}
	k.domain(d.U)
	return k.rnd(d.Rat(), e)
}

var lim52 = new(big.Int).Lsh(big.NewInt(1), 52)

func (k *calc) domain(x *big.Int) {
	if new(big.Int).Abs(x).Cmp(lim52) >= 0 {
		k.out.OutOfDomain = true
	}
}

// mulAt: the library multiplies the two unit values in float64 and divides
// by 10^exp(b); the unit product is the intermediate that must stay exact.
func (k *calc) mulAt(a, b dec.D, e int) dec.D {
	k.domain(new(big.Int).Mul(a.U, b.U))
	return k.rnd(a.Mul(b).Rat(), e)
}

func parse(s string) (dec.D, error) {
	d, ok := dec.Parse(s)
	if !ok {
		return dec.D{}, Unsupported{"bad number " + s}
	}
	return d, nil
}

func parseOpt(s *string) (*dec.D, error) {
	if s == nil {
		return nil, nil
	}
	d, err := parse(*s)
	if err != nil {
		return nil, err
	}
	return &d, nil
}

// applyRule: currency → exactly c decimals; precise → at least c.
func (k *calc) applyRule(d dec.D) dec.D {
	if k.env.Rule == "currency" {
		return k.round(d, k.c)
	}
	return d.Up(k.c)
}

// sub: receiver keeps its precision, operand is brought to it.
func (k *calc) sub(a, b dec.D) dec.D { return a.Sub(k.round(b, a.E)) }
func (k *calc) add(a, b dec.D) dec.D { return a.Add(k.round(b, a.E)) }

func (k *calc) convert(amount dec.D, rate dec.D) dec.D {
	a := amount.Up(k.c)
	return k.round(k.mulAt(a, rate, a.E), k.c)
}

// itemPrice brings the item price into the document currency.
func (k *calc) itemPrice(it *Item, cur string, rates []Rate) (dec.D, error) {
	p, err := parse(*it.Price)
	if err != nil {
		return dec.D{}, err
	}
	icur := it.Currency
	if icur == "" {
		icur = cur
	}
	idec, ok := k.env.Decimals(icur)
	if !ok {
		return dec.D{}, Unsupported{"unknown item currency " + icur}
	}
	p = p.Up(idec)
	if it.Currency == "" || it.Currency == cur {
		return p, nil
	}
	for _, ap := range it.AltPrices {
		if ap.Currency == cur {
			v, err := parse(ap.Value)
			if err != nil {
				return dec.D{}, err
			}
			return v.Up(k.c), nil
		}
	}
	for _, r := range rates {
		if r.From == it.Currency && r.To == cur {
			rv, err := parse(r.Amount)
			if err != nil {
				return dec.D{}, err
			}
			return k.convert(p, rv), nil
		}
	}
	return dec.D{}, Error{"no exchange rate"}
}

// lineDCs applies line discounts (sign -1) or charges (+1).
func (k *calc) lineDCs(list []LineDC, qty, sum, total dec.D, charge bool) (dec.D, []OutLineDC, error) {
	var out []OutLineDC
	for _, d := range list {
		var o OutLineDC
		amount, err := parse(orZero(d.Amount))
		if err != nil {
			return total, nil, err
		}
		pct, err := parseOpt(d.Percent)
		if err != nil {
			return total, nil, err
		}
		if pct != nil && !pct.IsZero() {
			base := sum
			if d.Base != nil {
				b, err := parse(*d.Base)
				if err != nil {
					return total, nil, err
				}
				b = b.Up(k.c)
				o.Base = &b
				base = k.applyRule(b.Up(k.c + 2 + k.env.Extra))
			}
			amount = k.mulAt(base, *pct, base.E)
		} else if d.Base != nil {
			b, _ := parse(*d.Base)
			o.Base = &b
		}
		if charge && d.Rate != nil {
			r, err := parse(*d.Rate)
			if err != nil {
				return total, nil, err
			}
			q := qty
			if d.Quantity != nil {
				if q, err = parse(*d.Quantity); err != nil {
					return total, nil, err
				}
			}
			amount = k.mulAt(r, q, r.E)
		}
		amount = amount.Up(k.c)
		if charge {
			total = k.add(total, amount)
		} else {
			total = k.sub(total, amount)
		}
		o.Amount = amount
		out = append(out, o)
	}
	return total, out, nil
}

func orZero(s string) string {
	if s == "" {
		return "0"
	}
	return s
}

func (k *calc) subLine(sl *SubLine, cur string, rates []Rate) (OutSub, error) {
	var o OutSub
	if sl.Item == nil || sl.Item.Price == nil {
		return o, nil
	}
	p, err := k.itemPrice(sl.Item, cur, rates)
	if err != nil {
		return o, err
	}
	o.Price = &p
	price := p
	if k.env.Rule != "currency" {
		price = price.Up(k.c + 2 + k.env.Extra)
	}
	q, err := parse(sl.Quantity)
	if err != nil {
		return o, err
	}
	sum := k.applyRule(k.mulAt(price, q, price.E))
	total := sum
	total, o.Discounts, err = k.lineDCs(sl.Discounts, q, sum, total, false)
	if err != nil {
		return o, err
	}
	total, o.Charges, err = k.lineDCs(sl.Charges, q, sum, total, true)
	if err != nil {
		return o, err
	}
	o.Sum, o.Total = &sum, &total
	return o, nil
}

func (k *calc) line(l *Line, cur string, rates []Rate) (OutLine, error) {
	var o OutLine
	if l.Item == nil {
		o.Skipped = true
		return o, nil
	}
	item := *l.Item
	if len(l.Breakdown) > 0 {
		np := dec.Zero(k.c)
		has := false
		e := 0
		for i := range l.Breakdown {
			so, err := k.subLine(&l.Breakdown[i], cur, rates)
			if err != nil {
				return o, err
			}
			o.Breakdown = append(o.Breakdown, so)
			if so.Total != nil {
				has = true
				np = np.Add(*so.Total)
			}
			if so.Price != nil && so.Price.E > e {
				e = so.Price.E
			}
		}
		if has {
			np = k.round(np, e)
			s := np.String()
			item = Item{Price: &s}
		}
	}
	if item.Price == nil {
		return o, nil
	}
	p, err := k.itemPrice(&item, cur, rates)
	if err != nil {
		return o, err
	}
	o.Price = &p
	w := k.c
	if k.env.Rule != "currency" {
		w += 2 + k.env.Extra
	}
	price := p.Up(w)
	q, err := parse(l.Quantity)
	if err != nil {
		return o, err
	}
	sum := k.applyRule(k.mulAt(price, q, price.E))
	total := sum
	total, o.Discounts, err = k.lineDCs(l.Discounts, q, sum, total, false)
	if err != nil {
		return o, err
	}
	total, o.Charges, err = k.lineDCs(l.Charges, q, sum, total, true)
	if err != nil {
		return o, err
	}
	o.Sum, o.Total = &sum, &total
	wt := total
	o.work = &wt
	return o, nil
}

func (k *calc) docDCs(list []DocDC, sum dec.D) ([]dec.D, *dec.D, error) {
	if len(list) == 0 {
		return nil, nil, nil
	}
	var amounts []dec.D
	total := dec.Zero(k.c)
	for _, d := range list {
		amount, err := parse(orZero(d.Amount))
		if err != nil {
			return nil, nil, err
		}
		pct, err := parseOpt(d.Percent)
		if err != nil {
			return nil, nil, err
		}
		if pct != nil && !pct.IsZero() {
			base := sum
			if d.Base != nil {
				b, err := parse(*d.Base)
				if err != nil {
					return nil, nil, err
				}
				base = k.applyRule(b.Up(k.c + 2 + k.env.Extra))
			}
			amount = k.mulAt(base, *pct, base.E)
		}
		amount = k.applyRule(amount)
		amounts = append(amounts, amount)
		total = total.Add(amount)
	}
	return amounts, &total, nil
}

type taxRow struct {
	total  dec.D
	combos []Combo
}

// GroupKey identifies a rate group (keys are ignored, like the library's
// matching, which groups by value).
func GroupKey(c Combo) string {
	var ext []string
	for k, v := range c.Ext {
		ext = append(ext, k+"="+v)
	}
	sort.Strings(ext)
	if c.Percent == nil {
		return fmt.Sprintf("exempt|%s|%s", c.Country, strings.Join(ext, ","))
	}
	p, _ := dec.Parse(*c.Percent)
	s := "-"
	if c.Surcharge != nil {
		sd, _ := dec.Parse(*c.Surcharge)
		s = sd.Rat().String()
	}
	return fmt.Sprintf("%s|%s|%s|%s", c.Country, p.Rat().String(), s, strings.Join(ext, ","))
}

func (k *calc) taxes(rows []taxRow, pit string) error {
	o := k.out
	// prepare: rows carrying combos work with at least c+2 decimals
	for i := range rows {
		if len(rows[i].combos) > 0 {
			rows[i].total = rows[i].total.Up(k.c + 2 + k.env.Extra)
		}
	}
	if pit != "" {
		for i := range rows {
			for _, cb := range rows[i].combos {
				if cb.Cat != pit {
					continue
				}
				if k.env.Retained(cb) {
					return Error{"cannot include retained category"}
				}
				if cb.Percent == nil {
					break
				}
				p, err := parse(*cb.Percent)
				if err != nil {
					return err
				}
				f := new(big.Rat).Add(p.Rat(), big.NewRat(1, 1))
				if f.Sign() == 0 {
					return Unsupported{"-100% included"}
				}
				k.domain(new(big.Int).Mul(rows[i].total.U, dec.Pow10(p.E)))
				rows[i].total = k.rnd(new(big.Rat).Quo(rows[i].total.Rat(), f), rows[i].total.E)
				break
			}
		}
	}
	cats := map[string]*OutCat{}
	for _, r := range rows {
		for _, cb := range r.combos {
			ct := cats[cb.Cat]
			if ct == nil {
				ct = &OutCat{Code: cb.Cat, Retained: k.env.Retained(cb)}
				cats[cb.Cat] = ct
				o.Cats = append(o.Cats, ct)
			}
			key := GroupKey(cb)
			var rt *OutRate
			for _, x := range ct.Rates {
				if x.Key == key {
					rt = x
				}
			}
			if rt == nil {
				rt = &OutRate{Key: key, Cat: cb.Cat, Country: cb.Country, Ext: cb.Ext, Base: dec.Zero(k.c)}
				if cb.Percent != nil {
					p, err := parse(*cb.Percent)
					if err != nil {
						return err
					}
					rt.Percent = &p
				}
				if cb.Surcharge != nil && cb.Percent != nil {
					s, err := parse(*cb.Surcharge)
					if err != nil {
						return err
					}
					rt.SurPercent = &s
				}
				ct.Rates = append(ct.Rates, rt)
			}
			rt.Members++
			if k.env.Rule == "currency" {
				rt.Base = rt.Base.Add(k.round(r.total, k.c))
			} else {
				rt.Base = rt.Base.Add(r.total)
			}
		}
	}
	sum := dec.Zero(k.c)
	for _, ct := range o.Cats {
		amt := dec.Zero(k.c)
		var sur *dec.D
		for _, rt := range ct.Rates {
			if rt.Percent == nil {
				rt.Amount = dec.Zero(k.c)
				continue
			}
			rt.Amount = k.mulAt(rt.Base, *rt.Percent, rt.Base.E)
			amt = amt.Add(rt.Amount)
			if rt.SurPercent != nil {
				sa := k.mulAt(rt.Base, *rt.SurPercent, rt.Base.E)
				rt.SurAmount = &sa
				if sur == nil {
					z := dec.Zero(k.c)
					sur = &z
				}
				x := sur.Add(sa)
				sur = &x
			}
		}
		ct.precise = amt
		if ct.Retained {
			sum = sum.Sub(amt)
			if sur != nil {
				sum = sum.Sub(*sur)
			}
		} else {
			sum = sum.Add(amt)
			if sur != nil {
				sum = sum.Add(*sur)
			}
		}
		ct.Amount = amt
		ct.Surcharge = sur
	}
	o.Tax = sum // precise
	// presentation of the summary
	for _, ct := range o.Cats {
		for _, rt := range ct.Rates {
			rt.Amount = k.round(rt.Amount, k.c)
			rt.Base = k.round(rt.Base, k.c)
			if rt.SurAmount != nil {
				x := k.round(*rt.SurAmount, k.c)
				rt.SurAmount = &x
			}
		}
		ct.Amount = k.round(ct.Amount, k.c)
		if ct.Surcharge != nil {
			x := k.round(*ct.Surcharge, k.c)
			ct.Surcharge = &x
		}
	}
	o.TaxSum = k.round(sum, k.c)
	return nil
}

// Calculate runs the reference. lineTaxes/discTaxes/chargeTaxes are the
// combos as resolved on the calculated document (per row, same order).
func Calculate(in *Doc, env *Env) (*Out, error) {
	c, ok := env.Decimals(in.Currency)
	if !ok {
		return nil, Unsupported{"unknown currency " + in.Currency}
	}
	k := &calc{env: env, c: c, out: &Out{C: c, Rule: env.Rule}}
	o := k.out
	pit := ""
	if in.Tax != nil {
		pit = in.Tax.PricesInclude
	}
	for i := range in.Lines {
		lo, err := k.line(&in.Lines[i], in.Currency, in.ExchangeRates)
		if err != nil {
			return nil, err
		}
		o.Lines = append(o.Lines, lo)
	}
	sum := dec.Zero(c)
	for _, l := range o.Lines {
		if l.work != nil {
			sum = sum.Add(*l.work)
		}
	}
	total := sum
	var err error
	var dsum, csum *dec.D
	if o.Discounts, dsum, err = k.docDCs(in.Discounts, sum); err != nil {
		return nil, err
	}
	if dsum != nil {
		total = k.sub(total, *dsum)
	}
	if o.Charges, csum, err = k.docDCs(in.Charges, sum); err != nil {
		return nil, err
	}
	if csum != nil {
		total = k.add(total, *csum)
	}
	var rows []taxRow
	for i, l := range o.Lines {
		if l.work != nil {
			rows = append(rows, taxRow{*l.work, in.Lines[i].Taxes})
		}
	}
	for i, d := range o.Discounts {
		rows = append(rows, taxRow{d.Neg(), in.Discounts[i].Taxes})
	}
	for i, ch := range o.Charges {
		rows = append(rows, taxRow{ch, in.Charges[i].Taxes})
	}
	if len(rows) == 0 {
		o.HasTotals = false
		k.presentLines(in)
		return o, nil
	}
	o.HasTotals = true
	o.Pre.Gross = total
	if err := k.taxes(rows, pit); err != nil {
		return nil, err
	}
	if pit != "" {
		for _, ct := range o.Cats {
			if ct.Code == pit {
				ti := ct.precise
				if ti.IsZero() {
					ti = ct.Amount
				}
				o.TaxIncluded = &ti
				total = k.sub(total, ti)
			}
		}
	}
	tax := o.Tax
	twt := k.add(total, tax)
	payable := twt
	if in.Totals != nil && in.Totals.Rounding != nil {
		r, err := parse(*in.Totals.Rounding)
		if err != nil {
			return nil, err
		}
		o.Rounding = &r
		payable = k.add(payable, r)
	}
	if in.Payment != nil {
		if len(in.Payment.Advances) > 0 {
			asum := dec.Zero(c)
			for _, a := range in.Payment.Advances {
				amt, err := parse(orZero(a.Amount))
				if err != nil {
					return nil, err
				}
				if a.Percent != nil {
					p, err := parse(*a.Percent)
					if err != nil {
						return nil, err
					}
					amt = k.mulAt(twt, p, twt.E)
				}
				amt = amt.Up(c)
				asum = asum.Add(amt)
				o.Advances = append(o.Advances, k.round(amt, c))
			}
			due := k.sub(payable, asum)
			dcopy := due
			o.Pre.Due = &dcopy
			a2 := k.round(asum, c)
			d2 := k.round(due, c)
			o.Advance, o.Due = &a2, &d2
		}
		if in.Payment.Terms != nil {
			for _, dd := range in.Payment.Terms.DueDates {
				amt, err := parse(orZero(dd.Amount))
				if err != nil {
					return nil, err
				}
				if dd.Percent != nil {
					p, err := parse(*dd.Percent)
					if err != nil {
						return nil, err
					}
					if !p.IsZero() {
						amt = k.mulAt(payable, p, payable.E)
					}
				}
				o.DueDates = append(o.DueDates, k.round(amt, c))
			}
		}
	}
	k.presentLines(in)
	// document discounts / charges: lowered to the currency's decimals (or the base's, when it has more)
	for i := range o.Discounts {
		e := c
		if in.Discounts[i].Base != nil {
			if b, ok := dec.Parse(*in.Discounts[i].Base); ok && b.E > e {
				e = b.E // never fewer decimals than the currency
			}
		}
		if o.Discounts[i].E > e {
			o.Discounts[i] = k.round(o.Discounts[i], e)
		}
	}
	for i := range o.Charges {
		e := c
		if in.Charges[i].Base != nil {
			if b, ok := dec.Parse(*in.Charges[i].Base); ok && b.E > e {
				e = b.E
			}
		}
		if o.Charges[i].E > e {
			o.Charges[i] = k.round(o.Charges[i], e)
		}
	}
	o.Pre.Sum, o.Pre.Total, o.Pre.Tax, o.Pre.TotalWithTax, o.Pre.Payable = sum, total, tax, twt, payable
	o.Sum = k.round(sum, c)
	if dsum != nil {
		x := k.round(*dsum, c)
		o.Discount = &x
	}
	if csum != nil {
		x := k.round(*csum, c)
		o.Charge = &x
	}
	if o.TaxIncluded != nil {
		x := k.round(*o.TaxIncluded, c)
		o.TaxIncluded = &x
	}
	o.Total = k.round(total, c)
	o.Tax = k.round(tax, c)
	o.TotalWithTax = k.round(twt, c)
	o.Payable = k.round(payable, c)
	return o, nil
}

func (k *calc) presentLines(in *Doc) {
	for i := range k.out.Lines {
		l := &k.out.Lines[i]
		if l.Price == nil {
			continue
		}
		e := l.Price.E
		down := func(d *dec.D) {
			if d != nil && d.E > e {
				*d = k.round(*d, e)
			}
		}
		down(l.Sum)
		down(l.Total)
		for j := range l.Discounts {
			down(&l.Discounts[j].Amount)
		}
		for j := range l.Charges {
			down(&l.Charges[j].Amount)
		}
		for j := range l.Breakdown {
			down(l.Breakdown[j].Sum)
			down(l.Breakdown[j].Total)
		}
	}
}

// ParseDoc reads the calculation-relevant members of a document.
func ParseDoc(b []byte) (*Doc, error) {
	d := new(Doc)
	if err := json.Unmarshal(b, d); err != nil {
		return nil, err
	}
	return d, nil
}
