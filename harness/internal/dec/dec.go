// Package dec is an exact decimal reference built on math/big. It shares no
// code with gobl's num package and never uses floating point. Rounding is
// always half away from zero.
package dec

import (
	"fmt"
	"math/big"
	"strings"
)

// D is Units / 10^Exp, Exp >= 0.
type D struct {
	U *big.Int
	E int
}

var ten = big.NewInt(10)

// Pow10 returns 10^n as a big.Int.
func Pow10(n int) *big.Int {
	return new(big.Int).Exp(ten, big.NewInt(int64(n)), nil)
}

// New builds a decimal from units and exponent.
func New(u int64, e int) D { return D{big.NewInt(u), e} }

// Zero at exponent e.
func Zero(e int) D { return D{new(big.Int), e} }

// Parse reads "-12.340" style text (optionally with a trailing %, which
// divides by 100 keeping all digits). ok=false when the text is not a plain
// decimal.
func Parse(s string) (D, bool) {
	pct := false
	if strings.HasSuffix(s, "%") {
		pct = true
		s = s[:len(s)-1]
	}
	neg := false
	if strings.HasPrefix(s, "-") {
		neg = true
		s = s[1:]
	}
	if s == "" {
		return D{}, false
	}
	ip, fp := s, ""
	if i := strings.IndexByte(s, '.'); i >= 0 {
		ip, fp = s[:i], s[i+1:]
		if fp == "" {
			return D{}, false
		}
	}
	if ip == "" {
		return D{}, false
	}
	for _, c := range ip + fp {
		if c < '0' || c > '9' {
			return D{}, false
		}
	}
	u, ok := new(big.Int).SetString(ip+fp, 10)
	if !ok {
		return D{}, false
	}
	if neg {
		u.Neg(u)
	}
	e := len(fp)
	if pct {
		e += 2
	}
	return D{u, e}, true
}

// MustParse panics on bad text.
func MustParse(s string) D {
	d, ok := Parse(s)
	if !ok {
		panic("dec: bad decimal " + s)
	}
	return d
}

// Rat gives the exact rational value.
func (d D) Rat() *big.Rat {
	return new(big.Rat).SetFrac(d.U, Pow10(d.E))
}

// Up raises the exponent to e (exact); no-op if already >= e.
func (d D) Up(e int) D {
	if d.E >= e {
		return d
	}
	return D{new(big.Int).Mul(d.U, Pow10(e-d.E)), e}
}

// Round rescales to exactly e decimals, half away from zero when lowering.
func (d D) Round(e int) D {
	if e >= d.E {
		return D{new(big.Int).Mul(d.U, Pow10(e-d.E)), e}
	}
	return RoundRat(d.Rat(), e)
}

// Down lowers to e decimals if the value has more (never raises).
func (d D) Down(e int) D {
	if d.E <= e {
		return d
	}
	return d.Round(e)
}

// RoundRat rounds a rational to e decimals, half away from zero.
func RoundRat(r *big.Rat, e int) D {
	num := new(big.Int).Mul(r.Num(), Pow10(e))
	den := r.Denom()
	neg := num.Sign() < 0
	num.Abs(num)
	q, m := new(big.Int).QuoRem(num, den, new(big.Int))
	// compare 2*m with den
	m2 := new(big.Int).Lsh(m, 1)
	if m2.Cmp(den) >= 0 {
		q.Add(q, big.NewInt(1))
	}
	if neg {
		q.Neg(q)
	}
	return D{q, e}
}

// IsTie reports whether rounding r to e decimals lands exactly on a half unit.
func IsTie(r *big.Rat, e int) bool {
	num := new(big.Int).Mul(r.Num(), Pow10(e))
	den := r.Denom()
	num.Abs(num)
	m := new(big.Int).Rem(num, den)
	m2 := new(big.Int).Lsh(m, 1)
	return m.Sign() != 0 && m2.Cmp(den) == 0
}

// IsExact reports whether r is representable with e decimals.
func IsExact(r *big.Rat, e int) bool {
	num := new(big.Int).Mul(r.Num(), Pow10(e))
	return new(big.Int).Rem(num, r.Denom()).Sign() == 0
}

// Add is exact, at the larger exponent.
func (d D) Add(o D) D {
	e := d.E
	if o.E > e {
		e = o.E
	}
	a, b := d.Up(e), o.Up(e)
	return D{new(big.Int).Add(a.U, b.U), e}
}

// Sub is exact, at the larger exponent.
func (d D) Sub(o D) D { return d.Add(o.Neg()) }

// Neg negates.
func (d D) Neg() D { return D{new(big.Int).Neg(d.U), d.E} }

// Mul is exact (exponents add).
func (d D) Mul(o D) D { return D{new(big.Int).Mul(d.U, o.U), d.E + o.E} }

// Cmp compares values.
func (d D) Cmp(o D) int {
	e := d.E
	if o.E > e {
		e = o.E
	}
	return d.Up(e).U.Cmp(o.Up(e).U)
}

// Same means same units and same exponent.
func (d D) Same(o D) bool { return d.E == o.E && d.U.Cmp(o.U) == 0 }

// Sign of the value.
func (d D) Sign() int { return d.U.Sign() }

// IsZero reports value == 0.
func (d D) IsZero() bool { return d.U.Sign() == 0 }

// String renders like gobl's amounts: all decimals kept.
func (d D) String() string {
	if d.U == nil {
		return "<nil>"
	}
	s := new(big.Int).Abs(d.U).String()
	if d.E > 0 {
		for len(s) <= d.E {
			s = "0" + s
		}
		s = s[:len(s)-d.E] + "." + s[len(s)-d.E:]
	}
	if d.U.Sign() < 0 {
		s = "-" + s
	}
	return s
}

// Pct renders as a percentage text ("21.0%"), i.e. value*100 with E-2 decimals.
func (d D) Pct() string {
	if d.E < 2 {
		return D{new(big.Int).Mul(d.U, Pow10(2)), d.E}.Up(0).String() + "%"
	}
	return D{d.U, d.E - 2}.String() + "%"
}

// FitsInt64 tells whether the units fit a signed 64-bit integer.
func (d D) FitsInt64() bool { return d.U.IsInt64() }

// Int64 returns the units.
func (d D) Int64() int64 { return d.U.Int64() }

// AbsRat returns |r|.
func AbsRat(r *big.Rat) *big.Rat { return new(big.Rat).Abs(r) }

// RatString prints a rational compactly.
func RatString(r *big.Rat) string {
	if r.IsInt() {
		return r.Num().String()
	}
	return fmt.Sprintf("%s (~%s)", r.String(), r.FloatString(8))
}
