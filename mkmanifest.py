#!/usr/bin/env python3
"""Writes MANIFEST.json from the table below (kept as code so the file stays
valid and consistent). Usage: python3 mkmanifest.py"""
import json, subprocess, os

HOOK_COMMITS = ["f22841d"]

# id -> (technique, level text, level note, design ref)
CHECKS = {
 "C05": ("reference-oracle monitor: every num operation executed on enumerated/tie-constructed/random operands, result compared with exact math/big arithmetic",
         "Exploration with an exact oracle: all amount/percentage/threshold operations are run on an exhaustive small grid (every exponent pair 0-3), on operands constructed to land on half units, and on random operands up to 2^52; each (value,exp) result is compared with exact rational arithmetic rounded half away from zero. Decides the property on the operand pairs executed; the small grid is complete.",
         "Trusts math/big and the 40-line rounding routine in harness/internal/dec. Operands outside the 2^52 domain are only run for crash-freedom.",
         "DESIGN.md §4 C05"),
 "C06": ("language/round-trip monitor: every reader and writer of num.Amount/Percentage run on exhaustively enumerated short strings, boundary grammar members and int64 units; accepted set compared with the pattern published in data/schemas/num and an exact big-integer value",
         "Exploration with an independent oracle: the accepted language is taken from the published schema files at run time; all strings over a 15-symbol alphabet up to length 5/6 are fed to 9 reader entry points, plus grammar members around the int64 boundary; all writers are run over boundary/random int64 units × exponents 0-18 and read back. Decides accept/reject/value agreement on the strings and values executed; the short-string space is complete.",
         "Trusts Go regexp for the published pattern and math/big for values. Percentages: factor form and empty text are part of the accepted language (documented/tested behaviour); percentage magnitudes beyond 2^52/100 only need 'error or exact value'.",
         "DESIGN.md §4 C06"),
 "C07": ("specification-reference + metamorphic monitor: c14n.CanonicalJSON run on every Unicode scalar, ordered key pairs, random value trees in 5 content-preserving encodings and on malformed inputs; output compared with an independent canonicaliser written from c14n/README.md, plus idempotence, parse-back, injectivity and json.Valid rejection oracles",
         "Exploration with two independent oracles: (1) a reference canonicaliser written from the README operating on the generated value tree (never on the text), (2) reference-free relations (same bytes for 5 encodings, valid UTF-8 JSON, canon∘canon = canon, parse-back equals the content minus null members, no two contents share a form). Malformed, empty, truncated (every proper prefix) and trailing inputs must be rejected without a panic. Single-character strings/keys are exhaustive over all 1112064 scalar values.",
         "Trusts encoding/json (Valid, decoding for parse-back), strconv shortest float digits and the reference in harness/internal/c14nref. -0.0 may render 0.0E0 or -0.0E0; U+FFFD strings may be rejected; integers beyond int64 / floats beyond float64 are outside the quantifier.",
         "DESIGN.md §4 C07"),
}

NOT_YET = {}

def main():
    props = [json.loads(l)["id"] for l in open("/verif/properties.jsonl")]
    checks = []
    for pid in props:
        if pid not in CHECKS:
            continue
        tech, text, note, ref = CHECKS[pid]
        checks.append({
            "property_id": pid,
            "quick_cmd": f"./run.sh {pid} quick",
            "thorough_cmd": f"./run.sh {pid} thorough",
            "evidence_file": f"evidence/{pid}.json",
            "replay_cmd_template": f"./run.sh {pid} replay {{path}}",
            "engine": "vcheck",
            "level_claimed": {"category": "exploration", "text": text, "design_ref": ref},
            "level_note": note,
            "technique": tech,
        })
    na = [{"property_id": p, "reason": NOT_YET.get(p, "monitor not built yet in this round; see DESIGN.md §4 for the planned runtime monitor")}
          for p in props if p not in CHECKS]
    m = {
        "version": 1,
        "setup_cmd": "./setup.sh",
        "hooks": {
            "guard": "verif",
            "enable": "go build -tags verif (new files */verif_roots.go are //go:build verif)",
            "baseline_off_cmd": "cd /repo && GOFLAGS=-mod=mod GOPROXY=off GOSUMDB=off GOTOOLCHAIN=local go test -json -vet=off -count=1 -timeout 25m ./...",
            "source_commits": HOOK_COMMITS,
            "add_only": True,
        },
        "engines": [
            {"name": "vcheck", "path": "harness/cmd/vcheck", "serves_properties": sorted(CHECKS),
             "kind_free_text": "Go binary rebuilt from /repo's working tree on every run; runs the real library (and CLI/server processes) under generated workloads with reference oracles, invariant monitors, the race detector and offline log checkers"},
        ],
        "checks": checks,
        "notes": "Runtime monitoring only. Known findings: KNOWN_FINDINGS.txt. Exit 2 + INCONCLUSIVE line = could not decide (build failure, too few observed events).",
        "not_applicable": na,
    }
    json.dump(m, open("/verif/MANIFEST.json", "w"), indent=1)
    print("wrote MANIFEST.json with", len(checks), "checks;", len(na), "not claimed")

main()
