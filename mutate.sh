#!/bin/bash
# mutate.sh <file> <python-replace-old> <python-replace-new> -- <check ids…>
# Applies a one-off textual mutation to /repo, runs the quick checks, restores the tree.
set -u
f=$1; old=$2; new=$3; shift 3; [ "$1" = "--" ] && shift
python3 - "$f" "$old" "$new" <<'PY'
import sys
p,old,new=sys.argv[1:4]
s=open('/repo/'+p).read()
if old not in s: print("PATTERN NOT FOUND"); sys.exit(3)
open('/repo/'+p,'w').write(s.replace(old,new,1))
PY
[ $? -ne 0 ] && exit 3
( cd /repo && . /verif/env.sh && go build ./... ) || { echo "MUTANT DOES NOT BUILD"; git -C /repo checkout -- .; exit 4; }
for id in "$@"; do
  out=$(cd /verif && ./run.sh $id quick 2>&1)
  echo "$id: $(echo "$out" | grep -c '^VIOLATION') violations; $(echo "$out" | grep '^VIOLATION' | head -2 | cut -c1-260)"
  echo "$out" | grep -E "^(RESULT|INCONCLUSIVE)" | head -2
done
git -C /repo checkout -- .
