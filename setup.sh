#!/bin/bash
# Builds the harness once, offline, from files on disk only.
set -eu
cd "$(dirname "$0")"
. ./env.sh
mkdir -p bin evidence replay
cp -f "$VERIF_REPO/go.sum" harness/go.sum
( cd harness && go build -tags verif -o ../bin/vcheck ./cmd/vcheck )
echo "setup ok"
