#!/bin/bash
# seedall.sh [names…] — re-applies every kept seeded change to /repo, runs the
# quick check(s) of its property, restores /repo, and rewrites seeded/SUMMARY.md.
# runs with a seeded change applied write evidence/<id>.seeded.json, never the committed evidence file
export VERIF_EVIDENCE_SUFFIX=.seeded
cd /verif
names=${@:-$(ls seeded | grep -v SUMMARY)}
for n in $names; do
  d=seeded/$n; [ -f $d/patch.diff ] || continue
  if grep -q '"obsolete_after_fix"' $d/meta.json; then echo "$n: skipped (made harmless by a later fix, see meta.json)"; continue; fi
  prop=$(python3 -c "import json;print(json.load(open('$d/meta.json'))['property'])")
  extra=$(python3 -c "import json;print(' '.join(json.load(open('$d/meta.json')).get('also_run',[])))")
  git -C /repo apply /verif/$d/patch.diff || { echo "$n: PATCH DOES NOT APPLY"; continue; }
  line=""
  for id in $prop $extra; do
    o=$(./run.sh $id quick 2>&1); rc=$?
    v=$(echo "$o" | grep -c '^VIOLATION')
    line="$line $id:exit=$rc:violations=$v"
    echo "$o" | grep '^VIOLATION' | head -1 | cut -c1-240 > $d/last_violation_$id.txt
  done
  git -C /repo checkout -- .
  echo "$n$line"
  python3 - "$n" "$line" <<'PY'
import json,sys
n,line=sys.argv[1],sys.argv[2]
p=f'/verif/seeded/{n}/meta.json'
m=json.load(open(p))
m['latest_check_results']=line.strip()
m['caught_by_final_checks']=any(int(x.split('violations=')[1])>0 for x in line.split() if 'violations=' in x)
json.dump(m,open(p,'w'),indent=1)
PY
done
python3 - <<'PY'
import json,glob,os
rows=[]
for p in sorted(glob.glob('/verif/seeded/*/meta.json')):
    m=json.load(open(p)); n=p.split('/')[-2]
    rows.append(f"| {n} | {m.get('property')} | {(m.get('breaks') or '')[:160]} | {(m.get('needs_to_manifest') or '')[:160]} | {m.get('latest_check_results', ' '.join(c['check']+':violations='+str(c['violations']) for c in m.get('checks',[])))} | {m.get('history','')} |")
open('/verif/seeded/SUMMARY.md','w').write("# Seeded breaking changes and the checks that catch them\n\n| name | property | change | needs | result of the quick checks with the change applied | history |\n|---|---|---|---|---|---|\n"+"\n".join(rows)+"\n")
print(open('/verif/seeded/SUMMARY.md').read()[:600])
PY
